"""Minimal Rust tokenizer: enough to copy token ranges of real source verbatim and to
match braces/brackets without being fooled by strings, chars, lifetimes and comments."""
import re
from collections import namedtuple

Tok = namedtuple("Tok", "kind text line")  # kind: ws comment ident lifetime char string number punct

_ident = re.compile(r"[A-Za-z_][A-Za-z0-9_]*")
_number = re.compile(r"(0x[0-9a-fA-F_]+|0b[01_]+|0o[0-7_]+|[0-9][0-9_]*(\.[0-9][0-9_]*)?([eE][+-]?[0-9_]+)?)([iuf](8|16|32|64|128|size))?")
_PUNCT3 = ("<<=", ">>=", "...", "..=")
_PUNCT2 = ("::", "->", "=>", "==", "!=", "<=", ">=", "&&", "||", "+=", "-=", "*=", "/=", "%=", "^=", "&=", "|=", "<<", ">>", "..")


class LexError(Exception):
    pass


def lex(src):
    toks = []
    i, n, line = 0, len(src), 1

    def push(kind, text):
        nonlocal line
        toks.append(Tok(kind, text, line))
        line += text.count("\n")

    while i < n:
        c = src[i]
        if c.isspace():
            j = i
            while j < n and src[j].isspace():
                j += 1
            push("ws", src[i:j]); i = j; continue
        if src.startswith("//", i):
            j = src.find("\n", i)
            j = n if j < 0 else j
            push("comment", src[i:j]); i = j; continue
        if src.startswith("/*", i):
            depth, j = 1, i + 2
            while j < n and depth:
                if src.startswith("/*", j):
                    depth += 1; j += 2
                elif src.startswith("*/", j):
                    depth -= 1; j += 2
                else:
                    j += 1
            push("comment", src[i:j]); i = j; continue
        # raw strings  r"..", r#".."#, br".."
        m = re.match(r"b?r(#*)\"", src[i:i + 40])
        if m:
            hashes = m.group(1)
            end = src.find('"' + hashes, i + m.end())
            if end < 0:
                raise LexError("unterminated raw string at line %d" % line)
            j = end + 1 + len(hashes)
            push("string", src[i:j]); i = j; continue
        if c == '"' or (c == "b" and i + 1 < n and src[i + 1] == '"'):
            j = i + (2 if c == "b" else 1)
            while j < n and src[j] != '"':
                j += 2 if src[j] == "\\" else 1
            j += 1
            push("string", src[i:j]); i = j; continue
        if c == "'":
            # char literal or lifetime
            m = re.match(r"'(\\.[^']*|[^'\\])'", src[i:i + 16])
            if m:
                push("char", m.group(0)); i += m.end(); continue
            m = _ident.match(src, i + 1)
            if m:
                push("lifetime", src[i:m.end()]); i = m.end(); continue
            raise LexError("stray quote at line %d" % line)
        m = _ident.match(src, i)
        if m:
            push("ident", m.group(0)); i = m.end(); continue
        if c.isdigit():
            m = _number.match(src, i)
            text = m.group(0)
            # `1..2` must not swallow the range dots;  `x.0.1` tuple fields are fine
            if "." in text and src.startswith("..", i + text.index(".")):
                text = text[:text.index(".")]
            push("number", text); i += len(text); continue
        for group in (_PUNCT3, _PUNCT2):
            for p in group:
                if src.startswith(p, i):
                    push("punct", p); i += len(p); break
            else:
                continue
            break
        else:
            push("punct", c); i += 1
    return toks


OPEN = {"(": ")", "[": "]", "{": "}"}
CLOSE = {v: k for k, v in OPEN.items()}


def sig(toks):
    """significant tokens (index list) — skip ws and comments"""
    return [k for k, t in enumerate(toks) if t.kind not in ("ws", "comment")]


def match_close(toks, k_open):
    """index of the token closing the bracket at toks[k_open]"""
    want = [OPEN[toks[k_open].text]]
    k = k_open + 1
    while k < len(toks):
        t = toks[k]
        if t.kind == "punct":
            if t.text in OPEN:
                want.append(OPEN[t.text])
            elif t.text in CLOSE:
                if not want or want[-1] != t.text:
                    raise LexError("bracket mismatch at line %d" % t.line)
                want.pop()
                if not want:
                    return k
        k += 1
    raise LexError("unclosed bracket from line %d" % toks[k_open].line)


def text_of(toks):
    return "".join(t.text for t in toks)


def norm(s):
    """whitespace-free normal form used for matching headers and types"""
    return re.sub(r"\s+", "", s)
