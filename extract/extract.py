"""Mechanical extraction of real functions from /repo/src into a Verus-checkable file.

What is copied: the token range of the function body, byte for byte.
What is changed: exactly the rewrite rules R1..R11 (plus block units) documented in DESIGN.md §A.1.
Anything unexpected raises Undecided (driver exit code 2), never a violation.
"""
import os
import re
from rustlex import lex, match_close, text_of, norm, Tok, LexError


class Undecided(Exception):
    pass


# ----------------------------------------------------------------------------
# locating items
# ----------------------------------------------------------------------------
class Source:
    def __init__(self, repo, rel):
        self.rel = rel
        self.path = os.path.join(repo, rel)
        try:
            self.text = open(self.path).read()
        except OSError as e:
            raise Undecided("cannot read %s: %s" % (self.path, e))
        try:
            self.toks = lex(self.text)
        except LexError as e:
            raise Undecided("lexer: %s in %s" % (e, rel))

    # --- helpers -----------------------------------------------------------
    def _next_sig(self, k):
        k += 1
        while k < len(self.toks) and self.toks[k].kind in ("ws", "comment"):
            k += 1
        return k

    def _open_brace_after(self, k):
        """first `{` at paren/bracket depth 0 after token k"""
        depth = 0
        while k < len(self.toks):
            t = self.toks[k]
            if t.kind == "punct":
                if t.text in "([":
                    depth += 1
                elif t.text in ")]":
                    depth -= 1
                elif t.text == "{" and depth == 0:
                    return k
                elif t.text == ";" and depth == 0:
                    return None
            k += 1
        return None

    def impls(self):
        """yield (header_norm, k_open, k_close) for every `impl` block in the file"""
        k = 0
        toks = self.toks
        while k < len(toks):
            t = toks[k]
            if t.kind == "ident" and t.text == "impl":
                # only item-level impls: previous significant token is not `:`/`->`/`(`/`,`/`<`/`&`/`=`
                p = k - 1
                while p >= 0 and toks[p].kind in ("ws", "comment"):
                    p -= 1
                if p >= 0 and toks[p].kind == "punct" and toks[p].text in (":", "->", "(", ",", "<", "&", "=", "+"):
                    k += 1
                    continue
                ko = self._open_brace_after(k)
                if ko is None:
                    k += 1
                    continue
                kc = match_close(toks, ko)
                yield norm(text_of(toks[k:ko])), ko, kc
                k = ko + 1
                continue
            k += 1

    def find_impl(self, header):
        if header.startswith("="):
            want = norm(header[1:])
            hits = [(h, ko, kc) for h, ko, kc in self.impls() if want == h]
        else:
            want = norm(header)
            hits = [(h, ko, kc) for h, ko, kc in self.impls() if want in h]
        if len(hits) != 1:
            raise Undecided("anchor lost: impl header %r matches %d blocks in %s" % (header, len(hits), self.rel))
        return hits[0][1], hits[0][2]

    def find_fn(self, name, lo=0, hi=None):
        """locate `fn name` whose enclosing brace depth (relative to lo) is <= 1"""
        toks = self.toks
        hi = len(toks) if hi is None else hi
        hits = []
        k = lo
        while k < hi:
            t = toks[k]
            if t.kind == "ident" and t.text == "fn":
                kn = self._next_sig(k)
                if toks[kn].kind == "ident" and toks[kn].text == name:
                    hits.append(k)
            k += 1
        if len(hits) != 1:
            raise Undecided("anchor lost: fn %s found %d times in %s" % (name, len(hits), self.rel))
        kfn = hits[0]
        kname = self._next_sig(kfn)
        k = self._next_sig(kname)
        generics = None
        if toks[k].text == "<":
            depth, g0 = 0, k
            while True:
                tx = toks[k].text if toks[k].kind == "punct" else ""
                if tx == "<":
                    depth += 1
                elif tx == ">":
                    depth -= 1
                elif tx == ">>":
                    depth -= 2
                if depth <= 0:
                    break
                k += 1
            generics = (g0, k)
            k = self._next_sig(k)
        if toks[k].text != "(":
            raise Undecided("unexpected fn shape for %s in %s" % (name, self.rel))
        p_open, p_close = k, match_close(toks, k)
        b_open = self._open_brace_after(p_close + 1)
        if b_open is None:
            raise Undecided("fn %s has no body in %s" % (name, self.rel))
        b_close = match_close(toks, b_open)
        # return type: tokens between `->` and (`where` | `{`)
        ret = None
        k = p_close + 1
        while k < b_open:
            if toks[k].kind == "punct" and toks[k].text == "->":
                r0 = k + 1
                r1 = r0
                while r1 < b_open and not (toks[r1].kind == "ident" and toks[r1].text == "where"):
                    r1 += 1
                ret = text_of(toks[r0:r1]).strip()
                break
            if toks[k].kind == "ident" and toks[k].text == "where":
                break
            k += 1
        return dict(name=name, kfn=kfn, p_open=p_open, p_close=p_close, b_open=b_open, b_close=b_close,
                    ret=ret, line0=toks[kfn].line, line1=toks[b_close].line)

    def find_item(self, kind, name):
        """enum / struct / const / trait item at any depth, including its leading attributes + doc comments"""
        toks = self.toks
        hits = []
        for k, t in enumerate(toks):
            if t.kind == "ident" and t.text == kind:
                kn = self._next_sig(k)
                if toks[kn].kind == "ident" and toks[kn].text == name:
                    hits.append(k)
        if len(hits) != 1:
            raise Undecided("anchor lost: %s %s found %d times in %s" % (kind, name, len(hits), self.rel))
        k = hits[0]
        # extend backwards over `pub`, `pub(crate)`, attributes and doc comments
        start = k
        p = k - 1
        while p >= 0:
            t = toks[p]
            if t.kind in ("ws",):
                p -= 1
                continue
            if t.kind == "comment" and t.text.startswith("///"):
                start = p
                p -= 1
                continue
            if t.kind == "ident" and t.text == "pub":
                start = p
                p -= 1
                continue
            if t.kind == "punct" and t.text == ")":
                # pub(crate)
                q = p
                while q >= 0 and toks[q].text != "(":
                    q -= 1
                q2 = q - 1
                while q2 >= 0 and toks[q2].kind == "ws":
                    q2 -= 1
                if q2 >= 0 and toks[q2].text == "pub":
                    start = q2
                    p = q2 - 1
                    continue
                break
            if t.kind == "punct" and t.text == "]":
                q = p
                depth = 0
                while q >= 0:
                    if toks[q].text == "]":
                        depth += 1
                    elif toks[q].text == "[":
                        depth -= 1
                        if depth == 0:
                            break
                    q -= 1
                if q >= 1 and toks[q - 1].text == "#":
                    start = q - 1
                    p = q - 2
                    continue
                break
            break
        if kind == "const":
            e = k
            while toks[e].text != ";":
                e += 1
            return start, k, e
        # find the body `{..}` or `;` / `(..);`
        e = k
        depth = 0
        while e < len(toks):
            tx = toks[e].text if toks[e].kind == "punct" else ""
            if tx == "{":
                return start, k, match_close(toks, e)
            if tx == "(":
                e = match_close(toks, e)
            if tx == ";":
                return start, k, e
            e += 1
        raise Undecided("item %s %s has no end" % (kind, name))

    def enum_variants(self, name):
        start, k, e = self.find_item("enum", name)
        toks = self.toks
        b = k
        while toks[b].text != "{":
            b += 1
        out, depth, j, expect = [], 0, b + 1, True
        while j < e:
            t = toks[j]
            if t.kind == "punct":
                if t.text in "([{<":
                    depth += 1
                elif t.text in ")]}>":
                    depth -= 1
                elif t.text == "," and depth == 0:
                    expect = True
                elif t.text == "#" and depth == 0:
                    while toks[j].text != "[":
                        j += 1
                    j = match_close(toks, j)
            elif t.kind == "ident" and depth == 0 and expect:
                out.append(t.text)
                expect = False
            j += 1
        return out

    def struct_fields(self, name):
        start, k, e = self.find_item("struct", name)
        toks = self.toks
        # body brace
        b = k
        while toks[b].text != "{":
            if toks[b].text == ";":
                return []
            b += 1
        fields = []
        depth = 0
        j = b + 1
        expect_name = True
        while j < e:
            t = toks[j]
            if t.kind == "punct":
                if t.text in "([{<":
                    depth += 1
                elif t.text in ")]}>":
                    depth -= 1
                elif t.text == "," and depth == 0:
                    expect_name = True
                elif t.text == "#" and depth == 0:
                    # attribute on field
                    while toks[j].text != "[":
                        j += 1
                    j = match_close(toks, j)
            elif t.kind == "ident" and depth == 0 and expect_name and t.text not in ("pub", "crate"):
                nx = self._next_sig(j)
                if toks[nx].text == ":":
                    fields.append(t.text)
                    expect_name = False
            j += 1
        return fields


# ----------------------------------------------------------------------------
# type mapping (R1)
# ----------------------------------------------------------------------------
ELEM = {"S::Elem", "Sd::Elem", "Sx::Elem", "Sy::Elem", "<Sd>::Elem", "<Sx>::Elem", "<Sy>::Elem", "T"}
PASS = {"usize", "bool", "Self", "Monotonic", "()", "InterpolateError", "BuilderError", "Extrapolate"}


def split_top(s, sep=","):
    out, depth, cur = [], 0, ""
    i = 0
    while i < len(s):
        c = s[i]
        if s.startswith("->", i):
            cur += "->"; i += 2; continue
        if c in "([<{":
            depth += 1
        elif c in ")]>}":
            depth -= 1
        if c == sep and depth == 0:
            out.append(cur); cur = ""
        else:
            cur += c
        i += 1
    if cur.strip():
        out.append(cur)
    return out


def map_type(ty, table):
    n = norm(ty)
    if n in table:
        return table[n]
    if n in ELEM:
        return "T"
    if n in PASS:
        return n
    if n.startswith("(") and n.endswith(")"):
        parts = split_top(n[1:-1])
        return "(" + ", ".join(map_type(p, table) for p in parts) + ")"
    if n.startswith("&mut"):
        return "&mut " + map_type(n[4:], table)
    if n.startswith("&"):
        rest = n[1:]
        rest = re.sub(r"^'[A-Za-z_]+", "", rest)
        return "&" + map_type(rest, table)
    m = re.match(r"^(Result|Option)<(.*)>$", n)
    if m:
        parts = split_top(m.group(2))
        return "%s<%s>" % (m.group(1), ", ".join(map_type(p, table) for p in parts))
    raise Undecided("R1: no mapping for type %r" % ty)


# ----------------------------------------------------------------------------
# body rewrites
# ----------------------------------------------------------------------------
def _sigidx(toks):
    return [k for k, t in enumerate(toks) if t.kind not in ("ws", "comment")]


def rewrite_R1b(toks, log):
    """R1 inside bodies: the element type paths `Sd::Elem`, `Sx::Elem`, `Sy::Elem`, `S::Elem`, `<Sd>::Elem` -> `T`"""
    out = []
    k = 0
    while k < len(toks):
        t = toks[k]
        s = [k + x for x in _sigidx(toks[k:k + 6])]
        if t.kind == "ident" and t.text in ("Sd", "Sx", "Sy", "S") and len(s) >= 3 and toks[s[1]].text == "::" and toks[s[2]].text == "Elem":
            out.append(Tok("ident", "T", t.line))
            log.append("R1 body type %s::Elem line %d" % (t.text, t.line))
            k = s[2] + 1
            continue
        if t.kind == "punct" and t.text == "<" and len(s) >= 5 and toks[s[1]].text in ("Sd", "Sx", "Sy") and toks[s[2]].text == ">" and toks[s[3]].text == "::" and toks[s[4]].text == "Elem":
            out.append(Tok("ident", "T", t.line))
            log.append("R1 body type <%s>::Elem line %d" % (toks[s[1]].text, t.line))
            k = s[4] + 1
            continue
        out.append(t)
        k += 1
    return out


def rewrite_R1c(toks, table, log):
    """R1 inside bodies, `let` type annotations: `let [mut] NAME : TYPE = ...` — TYPE is mapped through the same table as the
    signature types when it has an entry there (otherwise it is left alone)"""
    out = []
    k = 0
    while k < len(toks):
        t = toks[k]
        out.append(t)
        if t.kind == "ident" and t.text == "let":
            s = [k + 1 + x for x in _sigidx(toks[k + 1:k + 8])]
            j = 0
            if s and toks[s[0]].text == "mut":
                j = 1
            if len(s) > j + 1 and toks[s[j]].kind == "ident" and toks[s[j + 1]].text == ":":
                # type tokens up to the `=` / `;` at angle depth 0
                q = s[j + 1] + 1
                depth = 0
                while q < len(toks):
                    tx = toks[q].text if toks[q].kind == "punct" else ""
                    if tx == "<":
                        depth += 1
                    elif tx == ">":
                        depth -= 1
                    elif tx == ">>":
                        depth -= 2
                    elif tx in ("=", ";") and depth <= 0:
                        break
                    q += 1
                ty = norm(text_of(toks[s[j + 1] + 1:q]))
                if ty in table:
                    out.extend(toks[k + 1:s[j + 1] + 1])
                    out.append(Tok("ws", " ", t.line))
                    from rustlex import lex as _lex
                    out.extend(Tok(x.kind, x.text, t.line) for x in _lex(table[ty]))
                    out.append(Tok("ws", " ", t.line))
                    log.append("R1 let type %s -> %s line %d" % (ty, table[ty], t.line))
                    k = q
                    continue
        k += 1
    return out


def rewrite_R3(toks, log):
    """E.unwrap_or_else(|| M!(..))  ->  E.unwrap()   for M in {unimplemented, unreachable, panic}"""
    out = []
    k = 0
    while k < len(toks):
        t = toks[k]
        if t.kind == "ident" and t.text == "unwrap_or_else":
            s = _sigidx(toks[k:k + 12])
            s = [k + x for x in s]
            # expected: unwrap_or_else ( || M ! (
            if (len(s) >= 6 and toks[s[1]].text == "(" and toks[s[2]].text in ("||",)
                    and toks[s[3]].kind == "ident" and toks[s[3]].text in ("unimplemented", "unreachable", "panic")
                    and toks[s[4]].text == "!" and toks[s[5]].text == "("):
                close_outer = match_close(toks, s[1])
                inner_close = match_close(toks, s[5])
                # nothing but `)` may follow the macro call inside the closure
                rest = [x for x in toks[inner_close + 1:close_outer] if x.kind not in ("ws", "comment")]
                if rest:
                    raise Undecided("R3: unexpected closure tail at line %d" % t.line)
                out.append(Tok("ident", "unwrap", t.line))
                out.append(Tok("punct", "(", t.line))
                out.append(Tok("punct", ")", t.line))
                nl = text_of(toks[k:close_outer + 1]).count("\n")
                if nl:
                    out.append(Tok("ws", "\n" * nl, t.line))
                log.append("R3 line %d" % t.line)
                k = close_outer + 1
                continue
            raise Undecided("R3: unwrap_or_else with an unsupported closure at line %d" % t.line)
        out.append(t)
        k += 1
    return out


def _stmt_end(toks, k):
    """index of the `;` that ends the statement starting at k (depth 0)"""
    depth = 0
    j = k
    while j < len(toks):
        tx = toks[j].text if toks[j].kind == "punct" else ""
        if tx in ("(", "[", "{"):
            depth += 1
        elif tx in (")", "]", "}"):
            depth -= 1
            if depth < 0:
                return None
        elif tx == ";" and depth == 0:
            return j
        j += 1
    return None


def rewrite_R14(toks, log):
    """E.into_dyn()  ->  E : the logical shim has no static dimension type, so the conversion to dynamic rank is the identity on it
    (same shape, same elements: validated on the real ndarray by the shim scenario, `into_dyn[..]`)"""
    out, k = [], 0
    while k < len(toks):
        t = toks[k]
        if t.kind == "punct" and t.text == ".":
            s = [k + x for x in _sigidx(toks[k:k + 8])]
            if len(s) >= 4 and toks[s[1]].text == "into_dyn" and toks[s[2]].text == "(" and toks[s[3]].text == ")":
                log.append("R14 .into_dyn() dropped at line %d" % t.line)
                k = s[3] + 1
                continue
        out.append(t)
        k += 1
    return out


def rewrite_R8(toks, log):
    """A[I] -= E;  ->  A.set(I, A[I] - (E));      (compound assignment through an index; likewise += *= /=)"""
    out = []
    k = 0
    while k < len(toks):
        t = toks[k]
        if t.kind == "ident":
            s = [k + x for x in _sigidx(toks[k:k + 3])]
            prev = None
            for q in range(len(out) - 1, -1, -1):
                if out[q].kind not in ("ws", "comment"):
                    prev = out[q]
                    break
            at_stmt_start = prev is None or (prev.kind == "punct" and prev.text in (";", "{", "}"))
            if at_stmt_start and len(s) >= 2 and toks[s[1]].kind == "punct" and toks[s[1]].text == "[":
                c = match_close(toks, s[1])
                s2 = [c + 1 + x for x in _sigidx(toks[c + 1:c + 4])]
                if s2 and toks[s2[0]].kind == "punct" and toks[s2[0]].text == "=":
                    e = _stmt_end(toks, s2[0] + 1)
                    if e is None:
                        raise Undecided("R8: assignment without `;` at line %d" % t.line)
                    idx = text_of(toks[s[1] + 1:c]).strip()
                    rhs = text_of(toks[s2[0] + 1:e]).strip()
                    from rustlex import lex as _lex
                    txt = "%s.set(%s, %s);" % (t.text, idx, rhs)
                    out.extend(Tok(x.kind, x.text, t.line) for x in _lex(txt))
                    nl = text_of(toks[k:e + 1]).count("\n")
                    if nl:
                        out.append(Tok("ws", "\n" * nl, t.line))
                    log.append("R8 line %d (%s[..] = ..)" % (t.line, t.text))
                    k = e + 1
                    continue
                if s2 and toks[s2[0]].kind == "punct" and toks[s2[0]].text in ("-=", "+=", "*=", "/="):
                    e = _stmt_end(toks, s2[0] + 1)
                    if e is None:
                        raise Undecided("R8: compound assignment without `;` at line %d" % t.line)
                    idx = text_of(toks[s[1] + 1:c]).strip()
                    rhs = text_of(toks[s2[0] + 1:e]).strip()
                    op = toks[s2[0]].text[0]
                    from rustlex import lex as _lex
                    txt = "%s.set(%s, %s[%s] %s (%s));" % (t.text, idx, t.text, idx, op, rhs)
                    out.extend(Tok(x.kind, x.text, t.line) for x in _lex(txt))
                    nl = text_of(toks[k:e + 1]).count("\n")
                    if nl:
                        out.append(Tok("ws", "\n" * nl, t.line))
                    log.append("R8 line %d (%s[..] %s= ..)" % (t.line, t.text, op))
                    k = e + 1
                    continue
        out.append(t)
        k += 1
    return out


def rewrite_R9(toks, log):
    """for I in (A..B).rev() { BODY }  ->  let mut I_rev: usize = B; while I_rev > A { I_rev = I_rev - 1; let I = I_rev; BODY }"""
    out = []
    k = 0
    while k < len(toks):
        t = toks[k]
        if t.kind == "ident" and t.text == "for":
            # find the `{` that opens the loop body
            depth, j = 0, k + 1
            while j < len(toks):
                tx = toks[j].text if toks[j].kind == "punct" else ""
                if tx in ("(", "["):
                    depth += 1
                elif tx in (")", "]"):
                    depth -= 1
                elif tx == "{" and depth == 0:
                    break
                j += 1
            head = [x for x in toks[k + 1:j] if x.kind not in ("ws", "comment")]
            txt = [x.text for x in head]
            if len(txt) >= 8 and txt[-4:] == [".", "rev", "(", ")"]:
                # I in ( A .. B ) . rev ( )
                if not (head[0].kind == "ident" and txt[1] == "in" and txt[2] == "(" and txt[-5] == ")" and ".." in txt[3:-5]):
                    raise Undecided("R9: unsupported reversed loop head at line %d" % t.line)
                inner = txt[3:-5]
                if inner.count("..") != 1 or "..=" in inner:
                    raise Undecided("R9: unsupported reversed range at line %d" % t.line)
                d = inner.index("..")
                a, b = " ".join(inner[:d]), " ".join(inner[d + 1:])
                i = txt[0]
                from rustlex import lex as _lex
                pre = "let mut %s_rev: usize = %s; while %s_rev > %s { %s_rev = %s_rev - 1; let %s = %s_rev;" % (i, b, i, a, i, i, i, i)
                out.extend(Tok(x.kind, x.text, t.line) for x in _lex(pre))
                nl = text_of(toks[k:j + 1]).count("\n")
                if nl:
                    out.append(Tok("ws", "\n" * nl, t.line))
                log.append("R9 line %d (reversed range loop over %s)" % (t.line, i))
                k = j + 1
                continue
        out.append(t)
        k += 1
    return out


def rewrite_R10(toks, log, u, unit_name):
    """match arms named in `--- opaque-arm: <pattern tokens>` sections: the arm body is replaced by `{ opaque_arm() }`
    (a stub with `ensures false`): nothing is claimed about executions that enter that arm"""
    for sct in u["sections"]:
        if not sct["label"].startswith("opaque-arm"):
            continue
        anchor = sct["label"].split(":", 1)[1].strip()
        want = [t.text for t in lex(anchor) if t.kind not in ("ws", "comment")] + ["=>"]
        sigk = [k for k, t in enumerate(toks) if t.kind not in ("ws", "comment")]
        # a binder introduced by `ref` in the anchor pattern matches any identifier (the arm is named by its variant, not by the binder's name)
        def _tok_ok(tk, b):
            if b > 0 and want[b - 1] == "ref" and re.match(r"^[a-z_][A-Za-z0-9_]*$", want[b]):
                return tk.kind == "ident"
            return tk.text == want[b]
        hits = [a for a in range(len(sigk) - len(want) + 1) if all(_tok_ok(toks[sigk[a + b]], b) for b in range(len(want)))]
        if len(hits) != 1:
            raise Undecided("anchor lost: opaque-arm %r matches %d places in %s" % (anchor, len(hits), unit_name))
        a = hits[0]
        ob = sigk[a + len(want)]
        from rustlex import lex as _lex
        if toks[ob].text != "{":
            # expression arm `PAT => EXPR,` : the body runs up to the comma at nesting depth 0
            depth, q = 0, ob
            while q < len(toks):
                tx = toks[q].text if toks[q].kind == "punct" else ""
                if tx in ("(", "[", "{"):
                    depth += 1
                elif tx in (")", "]", "}"):
                    if depth == 0:
                        break
                    depth -= 1
                elif tx == "," and depth == 0:
                    break
                q += 1
            if q >= len(toks) or toks[q].text != ",":
                raise Undecided("R10: arm %r of %s has no block body and no terminating comma" % (anchor, unit_name))
            nl = text_of(toks[ob:q]).count("\n")
            rep = [Tok(x.kind, x.text, toks[ob].line) for x in _lex("{ opaque_arm() }")]
            if nl:
                rep.append(Tok("ws", "\n" * nl, toks[ob].line))
            log.append("R10 %s: arm `%s` (lines %d-%d) dropped: no claim about executions entering it" % (unit_name, anchor, toks[ob].line, toks[q - 1].line))
            toks = toks[:ob] + rep + toks[q:]
            continue
        cb = match_close(toks, ob)
        nl = text_of(toks[ob:cb + 1]).count("\n")
        rep = [Tok(x.kind, x.text, toks[ob].line) for x in _lex("{ opaque_arm() }")]
        if nl:
            rep.append(Tok("ws", "\n" * nl, toks[ob].line))
        log.append("R10 %s: arm `%s` (lines %d-%d) dropped: no claim about executions entering it" % (unit_name, anchor, toks[ob].line, toks[cb].line))
        toks = toks[:ob] + rep + toks[cb + 1:]
    return toks


def rewrite_R4(toks, log, unit_name):
    """Zip::from(A0).and(A1)...for_each(|p0,..| BODY);  ->  zip_checkN + lane loop"""
    out = []
    k = 0
    nzip = 0
    while k < len(toks):
        t = toks[k]
        if t.kind == "ident" and t.text == "Zip":
            s = [k + x for x in _sigidx(toks[k:k + 8])]
            if len(s) >= 4 and toks[s[1]].text == "::" and toks[s[2]].text == "from" and toks[s[3]].text == "(":
                args = []
                c = match_close(toks, s[3])
                args.append(toks[s[3] + 1:c])
                j = c + 1
                body = None
                while True:
                    s2 = [j + x for x in _sigidx(toks[j:j + 8])]
                    if len(s2) >= 3 and toks[s2[0]].text == "." and toks[s2[1]].text == "and" and toks[s2[2]].text == "(":
                        c = match_close(toks, s2[2])
                        args.append(toks[s2[2] + 1:c])
                        j = c + 1
                        continue
                    if len(s2) >= 3 and toks[s2[0]].text == "." and toks[s2[1]].text == "for_each" and toks[s2[2]].text == "(":
                        c = match_close(toks, s2[2])
                        body = toks[s2[2] + 1:c]
                        j = c + 1
                        break
                    if len(s2) >= 3 and toks[s2[0]].text == "." and toks[s2[1]].text == "map_assign_into" and toks[s2[2]].text == "(":
                        # Zip::from(A..).map_assign_into(OUT, |p..| EXPR)  ==  Zip::from(OUT).and(A..).for_each(|o, p..| { *o = EXPR; })
                        c = match_close(toks, s2[2])
                        inner = toks[s2[2] + 1:c]
                        depth, cut = 0, None
                        for q, tk in enumerate(inner):
                            tx = tk.text if tk.kind == "punct" else ""
                            if tx in ("(", "[", "{"):
                                depth += 1
                            elif tx in (")", "]", "}"):
                                depth -= 1
                            elif tx == "," and depth == 0:
                                cut = q
                                break
                        if cut is None:
                            raise Undecided("R4: map_assign_into without a closure in %s at line %d" % (unit_name, t.line))
                        target, clos = inner[:cut], inner[cut + 1:]
                        sc = _sigidx(clos)
                        if not sc or clos[sc[0]].text != "|":
                            raise Undecided("R4: map_assign_into argument is not a closure (line %d)" % t.line)
                        q = sc[0] + 1
                        while clos[q].text != "|":
                            q += 1
                        expr = text_of(clos[q + 1:]).strip().rstrip(",").strip()
                        ptxt = text_of(clos[sc[0] + 1:q]).strip()
                        from rustlex import lex as _lex
                        oname = "zip%d_out" % nzip
                        body = [Tok(x.kind, x.text, t.line) for x in _lex("|%s, %s| { *%s = %s; }" % (oname, ptxt, oname, expr))]
                        args.insert(0, target)
                        j = c + 1
                        log.append("R4 map_assign_into line %d" % t.line)
                        break
                    if len(s2) >= 3 and toks[s2[0]].text == "." and toks[s2[1]].text == "fold_while" and toks[s2[2]].text == "(":
                        # R12: Zip::from(A.axis_iter[_mut](AX)).and(..).fold_while(INIT, |ACC, p..| BODY).into_inner()
                        c = match_close(toks, s2[2])
                        s4 = [c + 1 + x for x in _sigidx(toks[c + 1:c + 9])]
                        if not (len(s4) >= 4 and toks[s4[0]].text == "." and toks[s4[1]].text == "into_inner"
                                and toks[s4[2]].text == "(" and toks[s4[3]].text == ")"):
                            raise Undecided("R12: fold_while without .into_inner() in %s at line %d" % (unit_name, t.line))
                        out.extend(_emit_zipfold(args, toks[s2[2] + 1:c], t.line, nzip, unit_name, log))
                        log.append("R12 fold_while line %d (%d producers)" % (t.line, len(args)))
                        body = "FOLD"
                        j = s4[3] + 1
                        break
                    raise Undecided("R4: unsupported Zip chain in %s at line %d (only .and(..)*.for_each(..))" % (unit_name, t.line))
                # optional trailing `;`
                s3 = [j + x for x in _sigidx(toks[j:j + 3])]
                if body != "FOLD" and s3 and toks[s3[0]].text == ";":
                    j = s3[0] + 1
                if body == "FOLD":
                    nzip += 1
                    k = j
                    continue
                out.extend(_emit_zip(args, body, t.line, nzip, unit_name))
                nl = text_of(toks[k:j]).count("\n")
                log.append("R4 line %d (%d producers)" % (t.line, len(args)))
                nzip += 1
                k = j
                continue
        out.append(t)
        k += 1
    return out


def _split_top_toks(toks):
    """split a token list at top-level commas"""
    parts, cur, depth = [], [], 0
    for tk in toks:
        tx = tk.text if tk.kind == "punct" else ""
        if tx in ("(", "[", "{"):
            depth += 1
        elif tx in (")", "]", "}"):
            depth -= 1
        if tx == "," and depth == 0:
            parts.append(cur); cur = []
        else:
            cur.append(tk)
    if [x for x in cur if x.kind not in ("ws", "comment")]:
        parts.append(cur)
    return parts


def _closure_parts(toks, what, line):
    """|params| BODY  ->  ([param texts], body tokens)"""
    sc = _sigidx(toks)
    if not sc or toks[sc[0]].text != "|":
        raise Undecided("%s: argument is not a closure (line %d)" % (what, line))
    q = sc[0] + 1
    while toks[q].text != "|":
        q += 1
    params = [norm(p) for p in split_top(text_of(toks[sc[0] + 1:q]))]
    return params, toks[q + 1:]


def _rewrite_R13(body, line, log):
    """R13: RECV.map_or_else(|P| A, |Q| B)  ->  match RECV { Err(P) => A, Ok(Q) => B }   (RECV = the whole prefix of the closure body)"""
    depth = 0
    sig = [q for q, tk in enumerate(body) if tk.kind not in ("ws", "comment")]
    # a body that is one block `{ EXPR }` is read as EXPR
    while sig and body[sig[0]].text == "{" and match_close(body, sig[0]) == sig[-1]:
        body = body[sig[0] + 1:sig[-1]]
        sig = [q for q, tk in enumerate(body) if tk.kind not in ("ws", "comment")]
    for a, q in enumerate(sig):
        tk = body[q]
        tx = tk.text if tk.kind == "punct" else ""
        if tx in ("(", "[", "{"):
            depth += 1
        elif tx in (")", "]", "}"):
            depth -= 1
        elif (depth == 0 and tx == "." and a + 2 < len(sig) and body[sig[a + 1]].text == "map_or_else"
              and body[sig[a + 2]].text == "("):
            c = match_close(body, sig[a + 2])
            if [x for x in body[c + 1:] if x.kind not in ("ws", "comment")]:
                raise Undecided("R13: map_or_else is not the last call of the closure body (line %d)" % line)
            parts = _split_top_toks(body[sig[a + 2] + 1:c])
            if len(parts) != 2:
                raise Undecided("R13: map_or_else with %d arguments (only one-parameter closures are read) (line %d)" % (len(parts), line))
            pe, be = _closure_parts(parts[0], "R13", line)
            po, bo = _closure_parts(parts[1], "R13", line)
            if len(pe) != 1 or len(po) != 1:
                raise Undecided("R13: closure arity (line %d)" % line)
            log.append("R13 map_or_else line %d" % line)
            return "match %s { Err(%s) => %s, Ok(%s) => %s }" % (text_of(body[:q]).strip(), pe[0], text_of(be).strip(), po[0], text_of(bo).strip())
    return text_of(body).strip()


def _emit_zipfold(args, inner, line, nzip, unit_name, log):
    """R12: the sequential early-exit fold of ndarray's Zip::fold_while over axis iterators as a while loop:
    item i of `X.axis_iter[_mut](AX)` is `X.axis_item[_mut](AX, i)`; FoldWhile::Done stops the loop, the accumulator is the value"""
    parts = _split_top_toks(inner)
    if len(parts) < 2:
        raise Undecided("R12: fold_while with %d arguments in %s (line %d)" % (len(parts), unit_name, line))
    init = text_of(parts[0]).strip()
    # everything after the first top-level comma is the closure (its parameter list contains commas)
    cut = len(parts[0])
    params, cbody = _closure_parts(inner[cut + 1:], "R12", line)
    if len(params) != len(args) + 1:
        raise Undecided("R12: %d closure parameters for %d producers (line %d)" % (len(params), len(args), line))
    for p_ in params:
        if not re.match(r"^[A-Za-z_][A-Za-z0-9_]*$", p_):
            raise Undecided("R12: unsupported closure pattern %r (line %d)" % (p_, line))
    recv, meth, axes = [], [], []
    for a in args:
        m = re.match(r"^([A-Za-z_][A-Za-z0-9_]*)\.(axis_iter_mut|axis_iter)\((.*)\)$", norm(text_of(a)))
        if not m:
            raise Undecided("R12: producer %r is not IDENT.axis_iter[_mut](AX) (line %d)" % (norm(text_of(a)), line))
        recv.append(m.group(1)); meth.append(m.group(2)); axes.append(m.group(3))
    ax = axes[0]
    z = "zip%d" % nzip
    # the closure parameters are alpha-renamed to fresh names (zipK_pI) so that the items stay nameable after the call
    fresh = {p_: "%s_p%d" % (z, idx) for idx, p_ in enumerate(params[1:]) if p_ != "_"}
    rb, prev = [], None
    for tk in cbody:
        if tk.kind == "ident" and tk.text in fresh and not (prev is not None and prev.kind == "punct" and prev.text in (".", "::")):
            rb.append(Tok("ident", fresh[tk.text], tk.line))
        else:
            rb.append(tk)
        if tk.kind not in ("ws", "comment"):
            prev = tk
    btxt = _rewrite_R13(rb, line, log).rstrip().rstrip(",").rstrip()      # a trailing comma after the last argument is not part of the body
    txt = ["{"]
    txt.append("zipfold_check%d(%s);" % (len(args), ", ".join(("&*" + r if mt == "axis_iter_mut" else "&" + r) + ", " + a_ for r, mt, a_ in zip(recv, meth, axes))))
    txt.append("let %s_n = %s.len_of(%s); let mut %s_i: usize = 0; let mut %s_acc = %s; let mut %s_go = true;" % (z, recv[0], ax, z, z, init, z))
    txt.append("while %s_go && %s_i < %s_n" % (z, z, z))
    txt.append("/*@ZIPLOOP@*/{")
    if params[0] != "_":
        txt.append("let %s = %s_acc;" % (params[0], z))
    for idx, (r, mt) in enumerate(zip(recv, meth)):
        txt.append("let %s_p%d = %s.%s(%s, %s_i);" % (z, idx, r, "axis_item_mut" if mt == "axis_iter_mut" else "axis_item", axes[idx], z))
    txt.append("let %s_r = %s;" % (z, btxt))
    txt.append("match %s_r { FoldWhile::Continue(%s_v) => { %s_acc = %s_v; } FoldWhile::Done(%s_v) => { %s_acc = %s_v; %s_go = false; } }" % (z, z, z, z, z, z, z, z))
    txt.append("%s_i += 1;" % z)
    txt.append("}")
    txt.append("%s_acc" % z)
    txt.append("}")
    from rustlex import lex as _lex
    toks = _lex("\n".join(txt) + "\n")
    return [Tok(t.kind, t.text, line) for t in toks]


def _emit_zip(args, body, line, nzip, unit_name):
    # closure params
    sb = _sigidx(body)
    if not sb or body[sb[0]].text != "|":
        raise Undecided("R4: for_each argument is not a closure (line %d)" % line)
    # find closing `|`
    kk = sb[0] + 1
    params_toks = []
    while body[kk].text != "|":
        params_toks.append(body[kk])
        kk += 1
    cbody = body[kk + 1:]
    params = [norm(p) for p in split_top(text_of(params_toks))]
    if len(params) != len(args):
        raise Undecided("R4: %d closure parameters for %d producers (line %d)" % (len(params), len(args), line))
    names, readonly = [], []
    for p in params:
        if p.startswith("&"):
            names.append(p[1:]); readonly.append(True)
        else:
            names.append(p); readonly.append(False)
        if not re.match(r"^[A-Za-z_][A-Za-z0-9_]*$", names[-1]):
            raise Undecided("R4: unsupported closure pattern %r (line %d)" % (p, line))
    for idx, a in enumerate(args):
        if re.search(r"\.windows\(\d+\)$", norm(text_of(a))):
            readonly[idx] = True      # the items of a windows producer are read-only views passed by value
    arrs = []
    pre = []
    for idx, a in enumerate(args):
        an = norm(text_of(a))
        if re.match(r"^[A-Za-z_][A-Za-z0-9_]*$", an) and an not in names:
            arrs.append(an)
        else:
            tmp = "zip%d_a%d" % (nzip, idx)
            if readonly[idx]:
                pre.append("let %s = %s;" % (tmp, text_of(a).strip()))
            else:
                pre.append("let %s = %s;" % (tmp, text_of(a).strip()))
            arrs.append(tmp)
    # closure body: strip deref of mutable params
    mut_names = {n for n, ro in zip(names, readonly) if not ro}
    cb = []
    sig_prev = None
    for q, tk in enumerate(cbody):
        if tk.kind == "punct" and tk.text == "*":
            # next significant token
            r = q + 1
            while r < len(cbody) and cbody[r].kind in ("ws", "comment"):
                r += 1
            unary = sig_prev is None or not (sig_prev.kind in ("ident", "number") or sig_prev.text in (")", "]"))
            if sig_prev is not None and sig_prev.kind == "ident" and sig_prev.text in ("return", "in", "else"):
                unary = True
            if unary and r < len(cbody) and cbody[r].kind == "ident" and cbody[r].text in mut_names:
                continue  # drop the deref
        if tk.kind not in ("ws", "comment"):
            sig_prev = tk
        cb.append(tk)
    cb_text = text_of(cb).strip()
    if not cb_text.startswith("{"):
        cb_text = "{ " + cb_text + " }"
    elif not cb_text.rstrip().endswith("}"):
        raise Undecided("R4: closure body shape (line %d)" % line)
    n = len(arrs)
    i = "zip%d_i" % nzip
    nn = "zip%d_n" % nzip
    txt = []
    txt.extend(pre)
    # a producer `X.windows(N)` is not a lane bundle: the shape check is the variant named after its position
    wpos = [str(idx) for idx, a in enumerate(args) if re.search(r"\.windows\(\d+\)$", norm(text_of(a)))]
    suffix = ("_w" + "_".join(wpos)) if wpos else ""
    txt.append("zip_check%d%s(%s);" % (n, suffix, ", ".join("&" + a for a in arrs)) if n > 1 else "")
    txt.append("let %s = %s.len(); let mut %s: usize = 0;" % (nn, arrs[0], i))
    txt.append("while %s < %s" % (i, nn))
    txt.append("/*@ZIPLOOP@*/{")
    lets = []
    for a, nm, ro in zip(arrs, names, readonly):
        lets.append("let %s%s = %s.get(%s);" % ("" if ro else "mut ", nm, a, i))
    txt.append(" ".join(lets))
    txt.append(cb_text)
    sets = []
    for a, nm, ro in zip(arrs, names, readonly):
        if not ro:
            sets.append("%s.set(%s, %s);" % (a, i, nm))
    txt.append(" ".join(sets) + " %s += 1;" % i)
    txt.append("}")
    # re-lex the generated text, tagging every token with the source line of the Zip
    from rustlex import lex as _lex
    toks = _lex("\n".join(x for x in txt if x) + "\n")
    return [Tok(t.kind, t.text, line) for t in toks]


# ----------------------------------------------------------------------------
# unit files
# ----------------------------------------------------------------------------
def parse_unit(path):
    u = dict(path=path, sections=[], head={})
    cur = None
    for ln_no, ln in enumerate(open(path).read().split("\n"), 1):
        if ln.startswith("---"):
            label = ln[3:].strip()
            if label == "end":
                cur = None
                continue
            cur = dict(label=label, lines=[], line0=ln_no + 1)
            u["sections"].append(cur)
            continue
        if cur is None:
            if ln.strip() and not ln.startswith("#"):
                k, _, v = ln.partition(":")
                u["head"][k.strip()] = v.strip()
        else:
            cur["lines"].append(ln)
    for req in ("unit", "file", "fn", "home"):
        if req not in u["head"]:
            raise Undecided("unit file %s lacks %s:" % (path, req))
    return u


def _sections(u, prefix):
    return [s for s in u["sections"] if s["label"].split()[0] == prefix]


class Emitter:
    """collects generated text with a line map: generated line -> (origin kind, description)"""

    def __init__(self):
        self.lines = []
        self.map = []   # parallel to lines: dict(kind=..., unit=..., src=..., line=..., label=...)

    def add(self, text, **origin):
        for ln in text.split("\n"):
            self.lines.append(ln)
            self.map.append(dict(origin))

    def add_tokens(self, toks, unit, rel):
        """emit tokens; every generated line is mapped to the source line of its first significant token"""
        cur, cur_line = "", None
        for t in toks:
            parts = t.text.split("\n")
            for pi, p in enumerate(parts):
                if pi > 0:
                    self.lines.append(cur)
                    self.map.append(dict(kind="code", unit=unit, src=rel, line=cur_line))
                    cur, cur_line = "", None
                if p:
                    cur += p
                    if cur_line is None and t.kind not in ("ws", "comment"):
                        cur_line = t.line + pi if t.kind in ("string", "comment") else t.line
        if cur:
            self.lines.append(cur)
            self.map.append(dict(kind="code", unit=unit, src=rel, line=cur_line))

    def text(self):
        return "\n".join(self.lines) + "\n"


REFS = os.path.join(os.path.dirname(os.path.dirname(os.path.abspath(__file__))), "contracts", "refs")
_KEYWORDS = set("as break const continue crate else enum extern false fn for if impl in let loop match mod move mut pub ref return self Self static struct super trait true type unsafe use where while dyn".split())


def _sig_pairs(toks):
    return [(t.kind, t.text) for t in toks if t.kind not in ("ws", "comment")]


def align_tokens(ref, cur):
    """alignment of the reference token stream of a function (recorded when the contract was written) with its current stream:
    list of (ref_index, cur_index) for tokens in equal-shape regions (identifiers count as one shape)"""
    shape = lambda p: "\x00ID" if p[0] == "ident" and p[1] not in _KEYWORDS else p[1]
    sr, sc = [shape(p) for p in ref], [shape(p) for p in cur]
    if sr == sc:
        return [(k, k) for k in range(len(ref))]
    import difflib
    out = []
    for tag, i1, i2, j1, j2 in difflib.SequenceMatcher(None, sr, sc, autojunk=False).get_opcodes():
        if tag == "equal":
            out.extend((i1 + d, j1 + d) for d in range(i2 - i1))
    return out


def _find_seq(sig, want):
    return [a for a in range(len(sig) - len(want) + 1) if all(sig[a + b][1] == want[b] for b in range(len(want)))]


def apply_renames(u, ref, cur, name, log):
    """R11: the contract text follows consistent renames of parameters / locals. Every section is tied to a position of the
    reference stream (signature, n-th loop, n-th Zip, anchor); an identifier of that section is rewritten to what its nearest
    preceding occurrence in the reference became in the current stream (scope aware: shadowed names are told apart).
    Anchors are moved through the alignment. Returns the rewritten unit and whether anything changed."""
    import copy
    al = align_tokens(ref, cur)
    if all(ref[a] == cur[b] for a, b in al) and len(al) == len(ref) == len(cur):
        return u, False
    r2c = dict(al)
    # a rename is only recognised when the new name is FRESH (does not occur in the reference at all): statements that were
    # merely reordered align `a_up` with `a_low` and must not be mistaken for a swap of names
    # a rename old -> new is only recognised by its full signature: `new` is FRESH (occurs nowhere in the reference), `old` has
    # VANISHED (occurs nowhere in the current stream), every aligned occurrence of `old` became `new`, and no other name became
    # `new`. Reordered or inserted statements align unrelated identifiers with each other and never look like that.
    ref_idents = {t[1] for k, t in enumerate(ref) if t[0] == "ident" and not (k > 0 and ref[k - 1][1] == ".")}      # field / method names do not count
    cur_idents = {t[1] for k, t in enumerate(cur) if t[0] == "ident" and not (k > 0 and cur[k - 1][1] == ".")}
    seen = {}
    for a, b in al:
        if ref[a][0] == "ident" and ref[a][1] not in _KEYWORDS and not (a > 0 and ref[a - 1][1] == "."):
            seen.setdefault(ref[a][1], set()).add(cur[b][1])
    # (a name that is bound twice — a local and a closure parameter `y1` — may become two fresh names; the occurrence nearest
    # before the position of a contract section then decides)
    good = {o: ns for o, ns in seen.items() if o not in cur_idents and o not in ns and all(n not in ref_idents for n in ns)}
    inv = {}
    for o, ns in good.items():
        for n in ns:
            inv.setdefault(n, set()).add(o)
    good = {o: ns for o, ns in good.items() if all(len(inv[n]) == 1 for n in ns)}
    occ = {}
    for a, b in al:
        if ref[a][0] == "ident" and ref[a][1] not in _KEYWORDS and not (a > 0 and ref[a - 1][1] == "."):
            o = ref[a][1]
            occ.setdefault(o, []).append((a, cur[b][1] if o in good else o))
    if not any(o != n for o, lst in occ.items() for _, n in lst):
        return u, False
    loops = [k for k, t in enumerate(ref) if t[0] == "ident" and t[1] in ("for", "while", "loop")]
    zips = [k for k, t in enumerate(ref) if t == ("ident", "Zip") and k + 2 < len(ref) and ref[k + 1][1] == "::" and ref[k + 2][1] == "from"]
    body0 = next((k for k, t in enumerate(ref) if t[1] == "{"), 0)

    changed = {}

    def relocate(anchor):
        want = [t.text for t in lex(anchor) if t.kind not in ("ws", "comment")]
        hits = _find_seq(ref, want)
        if len(hits) != 1:
            return anchor, None
        idx = [r2c.get(hits[0] + d) for d in range(len(want))]
        if None in idx or any(idx[d + 1] != idx[d] + 1 for d in range(len(idx) - 1)):
            return anchor, hits[0]
        # only fresh-name renames may change the anchor text (reordered statements align with different tokens)
        for d, k in enumerate(idx):
            if cur[k][1] != want[d] and not (cur[k][0] == "ident" and ref[hits[0] + d][0] == "ident" and cur[k][1] not in ref_idents):
                return anchor, hits[0]
        newa = " ".join(cur[k][1] for k in idx)
        if newa.split() != want:
            changed["<anchor> " + " ".join(want)] = newa
        return newa, hits[0]

    all_idents = set()
    for sct in u["sections"]:
        for ln in sct["lines"]:
            all_idents.update(re.findall(r"[A-Za-z_][A-Za-z0-9_]*", ln))

    def rename_text(txt, pos):
        def rep(m):
            nm = m.group(1)
            lst = [(a, n) for a, n in occ.get(nm, []) if a <= pos]
            if not lst:
                return nm
            n = lst[-1][1]
            if n != nm:
                if n in all_idents and n not in occ:
                    raise Undecided("R11: a local of %s was renamed to `%s`, which the contract text already uses for something else" % (name, n))
                changed[nm] = n
            return n
        return re.sub(r"(?<![A-Za-z0-9_.])(?<!::)([A-Za-z_][A-Za-z0-9_]*)(?![A-Za-z0-9_])", rep, txt)

    u2 = copy.deepcopy(u)
    h2 = u2["head"]
    base = body0
    if h2.get("block"):
        newa, pos = relocate(h2["block"])
        h2["block"] = newa
        if pos is not None:
            base = pos
        if h2.get("params"):
            h2["params"] = rename_text(h2["params"], base)
    for sct in u2["sections"]:
        lab = sct["label"].split()
        pos = base
        if lab and lab[0] in ("loop", "zloop") and len(lab) > 1 and lab[1].isdigit():
            pool = zips if lab[0] == "zloop" else loops
            if h2.get("block"):
                pool = [k for k in pool if k >= base]
            n = int(lab[1])
            if n < len(pool):
                pos = pool[n]
                if lab[0] == "loop":
                    # the invariant may speak about the loop variable: the position is the end of the loop header
                    q = pos
                    while q < len(ref) and ref[q][1] != "{":
                        q += 1
                    if q < len(ref):
                        pos = q
        elif lab and lab[0] in ("proof", "ghost", "opaque-arm") and ":" in sct["label"] and not sct["label"].startswith(("proof at-", "ghost at-")):
            head, anchor = sct["label"].split(":", 1)
            newa, p0 = relocate(anchor.strip())
            sct["label"] = head + ": " + newa
            if p0 is not None:
                pos = p0
        elif sct["label"].startswith("proof at-end"):
            pos = len(ref)
        elif lab and lab[0] in ("requires", "ensures"):
            pos = base if h2.get("block") else body0
        sct["lines"] = [rename_text(ln, pos) for ln in sct["lines"]]
    if changed:
        log.append("R11 %s: contract identifiers follow the renames %s" % (name, ", ".join("%s->%s" % kv for kv in sorted(changed.items()))))
    return (u2, True) if changed else (u, False)


def emit_unit(em, repo, u, type_table, log, assumed=False):
    h = u["head"]
    name = h["unit"]
    src = Source(repo, h["file"])
    lo, hi = 0, None
    if h.get("impl"):
        lo, hi = src.find_impl(h["impl"])
    f = src.find_fn(h["fn"], lo, hi)
    toks = src.toks
    # R11: contracts follow consistent renames of parameters / locals / closure parameters (reference stream in contracts/refs)
    refp = os.path.join(REFS, os.path.basename(u["path"]) + ".json")
    _ch = False
    if os.path.exists(refp) and not assumed:
        import json as _json
        u, _ch = apply_renames(u, [tuple(x) for x in _json.load(open(refp))], _sig_pairs(toks[f["kfn"]:f["b_close"] + 1]), name, log)
        h = u["head"]
    block = None
    if h.get("block"):
        # a statement (loop) inside the function, extracted as a pseudo-function over its free variables (declared in `params:`)
        want = [t.text for t in lex(h["block"]) if t.kind not in ("ws", "comment")]
        sigk = [k for k in range(f["b_open"] + 1, f["b_close"]) if toks[k].kind not in ("ws", "comment")]
        hits = [sigk[a] for a in range(len(sigk) - len(want) + 1) if all(toks[sigk[a + b]].text == want[b] for b in range(len(want)))]
        if len(hits) != 1:
            raise Undecided("anchor lost: block anchor %r matches %d places in %s" % (h["block"], len(hits), name))
        depth, j = 0, hits[0]
        while j < f["b_close"]:
            tx = toks[j].text if toks[j].kind == "punct" else ""
            if tx in ("(", "["):
                depth += 1
            elif tx in (")", "]"):
                depth -= 1
            elif tx == "{" and depth == 0:
                break
            j += 1
        block = (hits[0], match_close(toks, j))
        f = dict(f, line0=toks[block[0]].line, line1=toks[block[1]].line)
    # ---- signature (R1, R2)
    params_txt = text_of([t for t in toks[f["p_open"] + 1:f["p_close"]] if t.kind != "comment"])
    params = [p.strip() for p in split_top(params_txt) if p.strip()]
    if block:
        params = []
    table = dict(type_table)
    for s in _sections(u, "types"):
        for ln in s["lines"]:
            if "=>" in ln:
                a, b = ln.split("=>")
                table[norm(a)] = b.strip()
    new_params, lets = [], []
    pk = 0
    for p in params:
        pn = norm(p)
        if pn in ("self", "&self", "&mutself", "mutself"):
            new_params.append(p)
            continue
        pat, ty = None, None
        depth = 0
        for ci, c in enumerate(p):
            if c in "([<":
                depth += 1
            elif c in ")]>":
                depth -= 1
            elif c == ":" and depth == 0 and not p.startswith("::", ci) and (ci == 0 or p[ci - 1] != ":"):
                pat, ty = p[:ci].strip(), p[ci + 1:].strip()
                break
        if pat is None:
            raise Undecided("R2: cannot split parameter %r of %s" % (p, name))
        mty = map_type(ty, table)
        if pat.startswith("("):
            tmp = "p_%d" % pk
            new_params.append("%s: %s" % (tmp, mty))
            lets.append("let %s = %s;" % (pat, tmp))
            log.append("R2 %s: %s" % (name, pat))
        else:
            # by-value `mut x: ViewMut` becomes `x: &mut Lanes`
            if mty.startswith("&mut ") and pat.startswith("mut "):
                pat = pat[4:]
            new_params.append("%s: %s" % (pat, mty))
        pk += 1
    if block:
        new_params = [p.strip() for p in split_top(h.get("params", "")) if p.strip()]
    ret = None if block else f["ret"]
    retname = h.get("ret", "r")
    ret_txt = ""
    if ret is not None:
        ret_txt = " -> (%s: %s)" % (retname, map_type(ret, table))
    vis = "" if h.get("trait_impl") else "pub "
    em.add("// ---- unit %s : %s:%d-%d  (%s)" % (name, h["file"], f["line0"], f["line1"], h.get("impl", "free fn")),
           kind="meta", unit=name)
    attr = h.get("attr")
    if attr:
        em.add(attr, kind="meta", unit=name)
    if assumed:
        # modular verification: this program only uses the CONTRACT of the unit (it is proved in another program)
        em.add("#[verifier::external_body]  // contract proved in another program (see evidence: assumed_units)", kind="meta", unit=name)
    em.add("%sfn %s(%s)%s" % (vis, h.get("rename", h["fn"]), ", ".join(new_params), ret_txt),
           kind="sig", unit=name, src=h["file"], line=f["line0"])
    for secname in ("requires", "ensures"):
        secs = _sections(u, secname)
        if secs:
            em.add("    " + secname, kind="meta", unit=name)
            for s in secs:
                lab = s["label"][len(secname):].strip() or None
                nonempty = [(off, ln) for off, ln in enumerate(s["lines"]) if ln.strip()]
                for q, (off, ln) in enumerate(nonempty):
                    last = q + 1 == len(nonempty) or not nonempty[q + 1][1][:1].isspace()
                    tail = "," if last and not ln.rstrip().endswith(",") else ""
                    em.add("        " + ln.strip() + tail, kind=secname, unit=name, label=lab, ufile=u["path"], uline=s["line0"] + off, clause=ln.strip())
    for s in _sections(u, "decreases"):
        em.add("    decreases " + " ".join(x.strip() for x in s["lines"] if x.strip()), kind="decreases", unit=name)
    if assumed:
        em.add("{ unimplemented!() }", kind="meta", unit=name)
        import hashlib
        return dict(canary=False, assumed=True, unit=name, file=h["file"], fn=h["fn"], impl=h.get("impl"), lines=[f["line0"], f["line1"]],
                    sha256=hashlib.sha256(text_of(toks[f["kfn"]:f["b_close"] + 1]).encode()).hexdigest()[:16])
    em.add("{", kind="meta", unit=name)
    for l in lets:
        em.add("    " + l, kind="R2", unit=name)
    for s in u["sections"]:
        if s["label"].startswith("ghost at-start"):
            for off, ln in enumerate(s["lines"]):
                if ln.strip():
                    em.add("    " + ln, kind="proof", unit=name, label="ghost-at-start", ufile=u["path"], uline=s["line0"] + off)
    for s in u["sections"]:
        if s["label"].startswith("proof at-start"):
            em.add("    proof {", kind="meta", unit=name)
            for off, ln in enumerate(s["lines"]):
                em.add("        " + ln, kind="proof", unit=name, label="at-start", ufile=u["path"], uline=s["line0"] + off)
            em.add("    }", kind="meta", unit=name)
    # ---- body (R3, R4) and splice (R6)
    body = list(toks[block[0]:block[1] + 1]) if block else list(toks[f["b_open"] + 1:f["b_close"]])
    body = rewrite_R10(body, log, u, name)
    body = rewrite_R1b(body, log)
    body = rewrite_R1c(body, table, log)
    body = rewrite_R3(body, log)
    if h.get("drop-into-dyn"):
        body = rewrite_R14(body, log)
    body = rewrite_R8(body, log)
    body = rewrite_R9(body, log)
    body = rewrite_R4(body, log, name)
    # closures that survive the rewrites (arguments of map / and_then / fold ...): Verus does not infer what they do, so a
    # failed obligation of such a unit is a tool limit, not a finding — recorded here, used by the driver
    n_closures = 0
    prev_sig = None
    for tk in body:
        if tk.kind in ("ws", "comment"):
            continue
        if tk.kind == "punct" and tk.text in ("|", "||") and (prev_sig is None or prev_sig.text in ("(", ",", "=", "{", ";", "move", "return", "=>")):
            n_closures += 1
        prev_sig = tk
    body = splice(body, u, name)
    # head option `tail: NAME`: the body's value is bound to NAME so that `proof at-end` can speak about it (`let NAME = { BODY }; proof {..} NAME`)
    if h.get("tail"):
        em.add("    let %s = {" % h["tail"], kind="meta", unit=name)
    em.add_tokens_with_marks(body, name, h["file"]) if hasattr(em, "add_tokens_with_marks") else _emit_body(em, body, name, h["file"], u)
    if h.get("tail"):
        em.add("    };", kind="meta", unit=name)
    for s in u["sections"]:
        if s["label"].startswith("proof at-end"):
            em.add("    proof {", kind="meta", unit=name)
            for off, ln in enumerate(s["lines"]):
                em.add("        " + ln, kind="proof", unit=name, label="at-end", ufile=u["path"], uline=s["line0"] + off)
            em.add("    }", kind="meta", unit=name)
    if h.get("tail"):
        em.add("    " + h["tail"], kind="meta", unit=name)
    em.add("}", kind="meta", unit=name)
    # ---- vacuity canary: same parameters and preconditions, `ensures false` — must NOT verify
    has_canary = False
    if _sections(u, "requires") and not h.get("trait_impl") and not h.get("no_canary"):
        has_canary = True
        cn = "canary:" + name
        em.add("#[verifier::rlimit(8)]", kind="meta", unit=cn)
        em.add("pub fn vcanary_%s(%s)" % (h.get("rename", h["fn"]), ", ".join(new_params)), kind="meta", unit=cn)
        em.add("    requires", kind="meta", unit=cn)
        for s in _sections(u, "requires"):
            for ln in s["lines"]:
                if ln.strip():
                    em.add("        " + ln.strip() + ("" if ln.rstrip().endswith(",") else ","), kind="meta", unit=cn)
        em.add("    ensures false,", kind="canary", unit=cn)
        em.add("{", kind="meta", unit=cn)
        for s in u["sections"]:
            if s["label"].startswith("ghost at-start"):
                em.add("    " + " ".join(x.strip() for x in s["lines"] if x.strip()), kind="meta", unit=cn)
        for s in u["sections"]:
            if s["label"].startswith("proof at-start"):
                em.add("    proof { " + " ".join(x.strip() for x in s["lines"]) + " }", kind="meta", unit=cn)
        em.add("}", kind="canary", unit=cn)
    import hashlib
    return dict(canary=has_canary, unit=name, file=h["file"], fn=h["fn"], impl=h.get("impl"), lines=[f["line0"], f["line1"]], closures=n_closures, r11=bool(_ch),
                sha256=hashlib.sha256(text_of(toks[block[0]:block[1] + 1] if block else toks[f["kfn"]:f["b_close"] + 1]).encode()).hexdigest()[:16])


class Mark:
    """a spliced contract fragment inside a body token stream"""

    def __init__(self, text, kind, label, ufile, uline):
        self.text, self.mkind, self.label, self.ufile, self.uline = text, kind, label, ufile, uline
        self.kind = "mark"
        self.line = None


def splice(body, u, name):
    """R6: loop invariants by ordinal, proof blocks before an anchored statement"""
    # loops in source order
    loop_idx = []
    for k, t in enumerate(body):
        if t.kind == "ident" and t.text in ("while", "for", "loop"):
            # `for` in `for<'a>` or impl-for does not occur in bodies we extract
            loop_idx.append(k)
    # loops generated by R4 (marked) live in their own ordinal namespace `zloop`, so that loops added to or removed
    # from the source do not shift the invariants of the lane loops (and vice versa)
    def _is_zip(k):
        j = k + 1
        while j < len(body) and not (body[j].kind == "punct" and body[j].text == "{"):
            if body[j].kind == "comment" and "@ZIPLOOP@" in body[j].text:
                return True
            j += 1
        return False
    zip_idx = [k for k in loop_idx if _is_zip(k)]
    src_idx = [k for k in loop_idx if not _is_zip(k)]
    inserts = {}   # token index -> list of Mark (inserted BEFORE that token)
    for s in u["sections"]:
        lab = s["label"].split()
        if lab[0] in ("loop", "zloop"):
            n = int(lab[1])
            pool = zip_idx if lab[0] == "zloop" else src_idx
            if n >= len(pool):
                raise Undecided("anchor lost: unit %s expects %s #%d, body has %d such loops" % (name, lab[0], n, len(pool)))
            k = pool[n]
            # opening brace of the loop body: first `{` at depth 0 after the keyword
            depth = 0
            j = k + 1
            while j < len(body):
                tx = body[j].text if body[j].kind == "punct" else ""
                if tx in "([":
                    depth += 1 if tx else 0
                elif tx in ")]" and tx:
                    depth -= 1
                elif tx == "{" and depth == 0:
                    break
                j += 1
            if j >= len(body):
                raise Undecided("loop #%d of %s has no body" % (n, name))
            marks = [Mark("\n" + ln, "%s%d" % (lab[0], n), None, u["path"], s["line0"] + off) for off, ln in enumerate(s["lines"]) if ln.strip()]
            marks.append(Mark("\n", "ws", None, None, None))
            inserts.setdefault(j, []).extend(marks)
        elif lab[0] in ("proof", "ghost") and len(lab) > 1 and lab[1].startswith("before"):
            pick_last = lab[1].startswith("before-last")
            pick_first = lab[1].startswith("before-first")
            anchor = s["label"].split(":", 1)[1].strip()
            want = [t.text for t in lex(anchor) if t.kind not in ("ws", "comment")]
            sigk = [k for k, t in enumerate(body) if t.kind not in ("ws", "comment")]
            hits = []
            for a in range(len(sigk) - len(want) + 1):
                if all(body[sigk[a + b]].text == want[b] for b in range(len(want))):
                    hits.append(sigk[a])
            if pick_last and hits:
                hits = hits[-1:]
            if pick_first and hits:
                hits = hits[:1]
            if len(hits) != 1:
                raise Undecided("anchor lost: proof anchor %r matches %d places in %s" % (anchor, len(hits), name))
            marks = [Mark("proof {\n", "meta", None, None, None)] if lab[0] == "proof" else []
            marks += [Mark(ln + "\n", "proof", anchor, u["path"], s["line0"] + off) for off, ln in enumerate(s["lines"])]
            if lab[0] == "proof":
                marks.append(Mark("}\n", "meta", None, None, None))
            inserts.setdefault(hits[0], []).extend(marks)
    out = []
    for k, t in enumerate(body):
        if k in inserts:
            out.extend(inserts[k])
        out.append(t)
    return out


def _emit_body(em, body, unit, rel, u):
    cur, cur_origin = "", None

    def flush():
        nonlocal cur, cur_origin
        em.lines.append(cur)
        em.map.append(cur_origin or dict(kind="code", unit=unit, src=rel, line=None))
        cur, cur_origin = "", None

    for t in body:
        if isinstance(t, Mark):
            parts = t.text.split("\n")
            for pi, p in enumerate(parts):
                if pi > 0:
                    flush()
                if p:
                    cur += p
                    if t.mkind not in ("ws", "meta"):
                        cur_origin = dict(kind=t.mkind, unit=unit, label=t.label, ufile=t.ufile, uline=t.uline, clause=p.strip())
            continue
        parts = t.text.split("\n")
        for pi, p in enumerate(parts):
            if pi > 0:
                flush()
            if p:
                cur += p
                if cur_origin is None and t.kind not in ("ws", "comment"):
                    cur_origin = dict(kind="code", unit=unit, src=rel, line=t.line + pi)
    if cur:
        flush()


def emit_item(em, repo, rel, kind, name, log, strip_generics=False, make_pub=True):
    """copy an enum/struct/const item verbatim (R5: made `pub`)"""
    src = Source(repo, rel)
    start, k, e = src.find_item(kind, name)
    toks = list(src.toks[start:e + 1])
    toks = [t for t in toks if not (t.kind == "comment")]
    txt = text_of(toks)
    if make_pub and not re.search(r"\bpub\b", text_of(src.toks[start:k])):
        # insert pub before the keyword
        pre = text_of([t for t in src.toks[start:k] if t.kind != "comment"])
        post = text_of([t for t in src.toks[k:e + 1] if t.kind != "comment"])
        txt = pre + "pub " + post
        log.append("R5 pub %s %s" % (kind, name))
    em.add("// ---- item %s %s : %s:%d" % (kind, name, rel, src.toks[k].line), kind="meta")
    em.add(txt, kind="item", src=rel, line=src.toks[k].line)
    import hashlib
    return dict(unit="%s %s" % (kind, name), file=rel, lines=[src.toks[start].line, src.toks[e].line],
                sha256=hashlib.sha256(txt.encode()).hexdigest()[:16])
