"""Assemble a Verus program from a layout file: prelude + spec vocabulary + real functions
extracted from /repo on this run + spliced contracts.  Returns the text, the line map and
the list of functions under contract."""
import os
import re
import sys
import json
from extract import Emitter, Undecided, Source, parse_unit, emit_unit, emit_item

HERE = os.path.dirname(os.path.abspath(__file__))
VERIF = os.path.dirname(HERE)
CONTRACTS = os.path.join(VERIF, "contracts")

# R1 type table shared by all units (normalised source type -> shim type)
TYPE_TABLE = {
    "ArrayViewMut<'_,<Sd>::Elem,<DasDimension>::Smaller>": "&mut Lanes",
    "ArrayViewMut<'_,Sd::Elem,D::Smaller>": "&mut Lanes",
    "ArrayViewMut<Sd::Elem,D::Smaller>": "&mut Lanes",
    "ndarray::ArrayViewMut<'_,<Sd>::Elem,<D::SmallerasDimension>::Smaller>": "&mut Lanes",
    "ArrayViewMut<'_,Sd::Elem,<D::SmallerasDimension>::Smaller>": "&mut Lanes",
    "ArrayView<Sd::Elem,D::Smaller>": "Lanes",
    "ArrayView<Sd::Elem,<D::SmallerasDimension>::Smaller>": "Lanes",
    "Interp1D<Sd,Sx,D,Self>": "Interp1D<Self>",
    "crate::interp2d::Interp2D<Sd,Sx,Sy,D,Self>": "Interp2D<Self>",
    "Interp2D<Sd,Sx,Sy,D,Self>": "Interp2D<Self>",
    "crate::InterpolateError": "InterpolateError",
    "Result<(),crate::InterpolateError>": "Result<(), InterpolateError>",
    "Result<Interp1D<Sd,Sx,D,Strat::FinishedStrat>,BuilderError>": "Result<Interp1D<Strat::FinishedStrat>, BuilderError>",
    "Result<Interp2D<Sd,Sx,Sy,D,Strat::FinishedStrat>,BuilderError>": "Result<Interp2D<Strat::FinishedStrat>, BuilderError>",
    "Result<Self,Monotonic>": "Result<Self, Monotonic>",
    "ArrayBase<Sx2,Ix1>": "Arr1",
    "ArrayBase<Sx,Ix1>": "Arr1",
    "ArrayBase<Sy,Ix1>": "Arr1",
    "ndarray::ArrayBase<Sx,ndarray::Ix1>": "Arr1",
    "ndarray::ArrayBase<Sy,ndarray::Ix1>": "Arr1",
    "ArrayBase<Sd,D>": "ArrD",
    "ndarray::ArrayBase<Sd,D>": "ArrD",
    "Result<Self::FinishedStrat,BuilderError>": "Result<Self::FinishedStrat, BuilderError>",
    "Result<Self::FinishedStrat,crate::BuilderError>": "Result<Self::FinishedStrat, BuilderError>",
}


def assemble(repo, layout_path):
    em = Emitter()
    log = []
    funcs = []
    units = {}
    em.add(open(os.path.join(CONTRACTS, "prelude", "prelude.rs")).read().rstrip("\n"), kind="prelude")
    em.add("verus! {", kind="meta")
    table = dict(TYPE_TABLE)
    seen_lemmas = set()
    for raw in open(layout_path).read().split("\n"):
        ln = raw.strip()
        if not ln or ln.startswith("#"):
            continue
        cmd, _, rest = ln.partition(" ")
        rest = rest.strip()
        if cmd == "program":
            continue
        elif cmd == "include":
            em.add(open(os.path.join(CONTRACTS, rest)).read().rstrip("\n"), kind="spec", file=rest)
        elif cmd == "lemmas" and rest in seen_lemmas:
            continue
        elif cmd == "lemmas":
            seen_lemmas.add(rest)
            sys.path.insert(0, os.path.join(VERIF, "lib"))
            import engine_l
            em.add(engine_l.verus_axioms(os.path.join(CONTRACTS, "lemmas", rest)), kind="lemma-import", file=rest)
        elif cmd == "raw":
            em.add(rest, kind="shim")
        elif cmd == "type":
            a, b = rest.split("=>")
            table[re.sub(r"\s+", "", a)] = b.strip()
        elif cmd == "fields":
            # fields <Struct> <file> f1,f2,..   — hidden state check
            name, rel, want = rest.split()
            got = Source(repo, rel).struct_fields(name)
            if got != want.split(","):
                raise Undecided("struct %s in %s has fields %s, shim expects %s (hidden state?)" % (name, rel, got, want))
            log.append("fields %s ok" % name)
        elif cmd == "variants":
            name, rel, want = rest.split()
            got = Source(repo, rel).enum_variants(name)
            if got != want.split(","):
                raise Undecided("enum %s in %s has variants %s, shim expects %s" % (name, rel, got, want))
            log.append("variants %s ok" % name)
        elif cmd == "item":
            kind, name, rel = rest.split()
            funcs.append(emit_item(em, repo, rel, kind, name, log))
        elif cmd == "open":
            em.add(rest + " {", kind="meta")
        elif cmd == "close":
            em.add("}", kind="meta")
        elif cmd == "assume-unit":
            # `assume-unit A + B + C`: ONE assumed function carrying the postconditions of several units of the SAME function, each
            # proved in its own program under the same preconditions (compared textually here, mismatch -> exit 2)
            names = [x.strip() for x in rest.split("+")]
            us = [parse_unit(os.path.join(CONTRACTS, "units", nm + ".unit")) for nm in names]
            u = us[0]
            def _req(uu):
                return sorted(re.sub(r"\s+", "", ln) for sc in uu["sections"] if sc["label"].startswith("requires") for ln in sc["lines"] if ln.strip())
            for extra in us[1:]:
                if _req(extra) != _req(u) or extra["head"]["fn"] != u["head"]["fn"] or extra["head"]["file"] != u["head"]["file"]:
                    raise Undecided("assume-unit: %s and %s do not share function and preconditions" % (u["head"]["unit"], extra["head"]["unit"]))
                u["sections"].extend(sc for sc in extra["sections"] if sc["label"].startswith("ensures"))
            info = emit_unit(em, repo, u, table, log, assumed=True)
            funcs.append(info)
            for extra in us[1:]:
                funcs.append(dict(info, unit=extra["head"]["unit"]))
        elif cmd == "unit":
            u = parse_unit(os.path.join(CONTRACTS, "units", rest + ".unit"))
            info = emit_unit(em, repo, u, table, log)
            funcs.append(info)
            units[info["unit"]] = info
        else:
            raise Undecided("layout: unknown command %r" % cmd)
    em.add("} // verus!", kind="meta")
    em.add("fn main() {}", kind="meta")
    return em, funcs, log


if __name__ == "__main__":
    import sys
    em, funcs, log = assemble(sys.argv[1], sys.argv[2])
    open(sys.argv[3], "w").write(em.text())
    json.dump(em.map, open(sys.argv[3] + ".map.json", "w"))
    print(json.dumps(funcs, indent=1))
    print("\n".join(log))
