#!/usr/bin/env python3-vt
"""Engine S discharge: decides the property obligations over the DAGs recorded from the real code.

Exact: every obligation is a rational-function identity in Q(inputs); it is decided either
symbolically in the fraction field (sympy.polys.fields) or, for the larger shapes, by exact
evaluation at random rational points (polynomial identity test; stated error probability).
Derivatives w.r.t. the query are taken by truncated Taylor arithmetic (order 4) over the field."""
import json
import random
import sys
import time
from fractions import Fraction

ORDER = 5  # Taylor coefficients c0..c4


class Jet:
    __slots__ = ("c",)

    def __init__(self, c):
        self.c = c

    @staticmethod
    def const(v, zero):
        return Jet([v] + [zero] * (ORDER - 1))

    def __add__(self, o):
        return Jet([a + b for a, b in zip(self.c, o.c)])

    def __sub__(self, o):
        return Jet([a - b for a, b in zip(self.c, o.c)])

    def __neg__(self):
        return Jet([-a for a in self.c])

    def __mul__(self, o):
        out = []
        for k in range(ORDER):
            s = self.c[0] * o.c[k]
            for i in range(1, k + 1):
                s = s + self.c[i] * o.c[k - i]
            out.append(s)
        return Jet(out)

    def __truediv__(self, o):
        g0 = o.c[0]
        out = []
        for k in range(ORDER):
            s = self.c[k]
            for i in range(1, k + 1):
                s = s - o.c[i] * out[k - i]
            out.append(s / g0)
        return Jet(out)


class Ev:
    """evaluates DAG nodes of one scenario under an environment var -> Jet"""

    def __init__(self, scn, zero, one, conv):
        self.nodes = scn["nodes"]
        self.zero, self.one, self.conv = zero, one, conv

    def run(self, env, targets):
        memo = {}
        zero = self.zero
        order = sorted(self._needed(targets))
        for i in order:
            n = self.nodes[i]
            op = n[0]
            if op == "v":
                if n[1] not in env:
                    raise KeyError("no value for variable %s" % n[1])
                memo[i] = env[n[1]]
            elif op == "c":
                memo[i] = Jet.const(self.conv(int(n[1]), int(n[2])), zero)
            elif op == "+":
                memo[i] = memo[n[1]] + memo[n[2]]
            elif op == "-":
                memo[i] = memo[n[1]] - memo[n[2]]
            elif op == "*":
                memo[i] = memo[n[1]] * memo[n[2]]
            elif op == "/":
                memo[i] = memo[n[1]] / memo[n[2]]
            elif op == "n":
                memo[i] = -memo[n[1]]
        return [memo[t] for t in targets]

    def _needed(self, targets):
        seen = set()
        stack = list(targets)
        while stack:
            i = stack.pop()
            if i in seen:
                continue
            seen.add(i)
            n = self.nodes[i]
            if n[0] in "+-*/":
                stack.append(n[1]); stack.append(n[2])
            elif n[0] == "n":
                stack.append(n[1])
        return seen


def support(scn, target):
    seen, out = set(), set()
    stack = [target]
    nodes = scn["nodes"]
    while stack:
        i = stack.pop()
        if i in seen:
            continue
        seen.add(i)
        n = nodes[i]
        if n[0] == "v":
            out.add(n[1])
        elif n[0] in "+-*/":
            stack.append(n[1]); stack.append(n[2])
        elif n[0] == "n":
            stack.append(n[1])
    return out


def merkle(scn, target, rename=lambda v: v):
    """structural identity of an expression (same operations on the same operands), modulo a variable renaming"""
    import hashlib
    nodes = scn["nodes"]
    memo = {}
    order = sorted(Ev(scn, 0, 1, None)._needed([target]))
    for i in order:
        n = nodes[i]
        if n[0] == "v":
            s = "v:" + rename(n[1])
        elif n[0] == "c":
            s = "c:%s/%s" % (n[1], n[2])
        elif n[0] == "n":
            s = "n:" + memo[n[1]]
        else:
            s = n[0] + ":" + memo[n[1]] + ":" + memo[n[2]]
        memo[i] = hashlib.sha1(s.encode()).hexdigest()
    return memo[target]


# ----------------------------------------------------------------------------------------------
class Field:
    """either the symbolic fraction field Q(gens) or exact rational points"""

    def __init__(self, names, mode, rng=None, shadows=None):
        self.mode = mode
        self.names = list(names)
        if mode == "sym":
            from sympy.polys.fields import field
            from sympy import QQ
            res = field(",".join(self.names), QQ)
            self.K = res[0]
            self.gen = dict(zip(self.names, res[1:]))
            self.zero, self.one = self.K.zero, self.K.one
            self.conv = lambda p, q: self.K(p) / self.K(q) if q != 1 else self.K(p)
        else:
            self.zero, self.one = Fraction(0), Fraction(1)
            self.conv = lambda p, q: Fraction(p, q)
            self.gen = {}
            self.rng = rng
            self.shadows = shadows or {}

    def point(self, assign):
        """mode 'pit': fix the rational values of all generators"""
        self.gen = dict(assign)

    def iszero(self, v):
        return v == 0

    def num(self, p, q=1):
        return self.conv(p, q)


def frac_of_float(f):
    return Fraction(f)   # exact: every finite double is a dyadic rational


def rational_point(names, shadows, rng, jitter):
    """a rational point near the shadow values; axis values are jittered by less than 1% of the smallest gap, so the
    ordering of the axis (and hence the recorded control path) is preserved whatever the scale of the axis"""
    xs = sorted(shadows[n] for n in names if n in shadows and n.startswith("x"))
    gaps = [b - a for a, b in zip(xs, xs[1:]) if b > a]
    g = Fraction(min(gaps)) if gaps else Fraction(1)
    out = {}
    for nm in names:
        base = frac_of_float(shadows.get(nm, 0.0)) if nm in shadows else Fraction(rng.randint(-40, 40), 8)
        if jitter and nm.startswith("x"):
            base += g * Fraction(rng.randint(-100, 100), 12800)
        elif jitter and not nm.startswith("q"):
            base += Fraction(rng.randint(-1000, 1000), 997)
        out[nm] = base
    return out


# ----------------------------------------------------------------------------------------------
# spline scenarios
# ----------------------------------------------------------------------------------------------
def parse_bc(bc, lanes):
    """-> per lane (left, right) in {NotAKnot, Natural, Clamped, FirstDeriv, SecondDeriv, Periodic}"""
    out = []
    if bc.startswith("Individual="):
        specs = bc.split("=", 1)[1].split("|")
        for l in range(lanes):
            s = specs[l % len(specs)]
            if s.startswith("Mixed:"):
                _, a, b = s.split(":")
                out.append((a, b))
            else:
                out.append((s, s))
    else:
        if bc == "Default":
            bc = "NotAKnot"     # C16: "the default NotAKnot spline"
        out = [(bc, bc)] * lanes
    return out


class SplineScn:
    def __init__(self, scn):
        self.scn = scn
        self.n = scn["n"]
        self.lanes = scn["lanes"]
        self.bc = scn["bc"]
        self.extrap = scn["extrap"]
        self.out = scn["outputs"]
        self.vars = {}
        for nd in scn["nodes"]:
            if nd[0] == "v":
                self.vars[nd[1]] = nd[2]
        self.sides = parse_bc(self.bc, self.lanes)
        self.periodic = self.bc == "Periodic"

    def gens(self):
        return [v for v in self.vars if not v.startswith("q")]

    def base_env(self, F, ymap=None, xmap=None, vmap=None):
        env = {}
        for v in self.gens():
            env[v] = F.gen[v]
        if self.periodic:
            for l in range(self.lanes):
                env["y%d_%d" % (self.n - 1, l)] = env["y0_%d" % l]
        if xmap:
            for k in list(env):
                if k.startswith("x"):
                    env[k] = xmap(k, env[k])
        if ymap:
            for k in list(env):
                if k.startswith("y"):
                    env[k] = ymap(k, env[k], env)
        if vmap:
            for k in list(env):
                if k.startswith("v"):
                    env[k] = vmap(k, env[k], env)
        return env

    def taylor(self, F, env, key, qvar, at, dq=None):
        """Taylor coefficients (w.r.t. the query) of output `key` with query variable qvar expanded at `at`"""
        ev = Ev(self.scn, F.zero, F.one, F.conv)
        jenv = {k: Jet.const(v, F.zero) for k, v in env.items()}
        jenv[qvar] = Jet([at, F.one if dq is None else dq] + [F.zero] * (ORDER - 2))
        return ev.run(jenv, [self.out[key]])[0].c


def spline_obligations(S, F, pid_filter=None):
    """yield (name, residuals) — every residual must be zero in the field"""
    n, lanes = S.n, S.lanes
    env = S.base_env(F)
    X = [env["x%d" % i] for i in range(n)]
    two, six = F.num(2), F.num(6)

    def T(key, qvar, at, e=None):
        return S.taylor(F, e or env, key, qvar, at)

    for l in range(lanes):
        Y = [env["y%d_%d" % (i, l)] for i in range(n)]
        left = [T("P:%d:%d" % (i, l), "q%d" % i, X[i]) for i in range(n - 1)]        # piece i expanded at its left knot
        right = [T("P:%d:%d" % (i, l), "q%d" % i, X[i + 1]) for i in range(n - 1)]   # piece i expanded at its right knot
        for i in range(n - 1):
            yield ("C02:interp-left[piece=%d,lane=%d]" % (i, l), [left[i][0] - Y[i]])
            yield ("C02:interp-right[piece=%d,lane=%d]" % (i, l), [right[i][0] - Y[i + 1]])
            yield ("C02:cubic[piece=%d,lane=%d]" % (i, l), [left[i][4], right[i][4]])
        for i in range(n - 1):
            if ("Q:%d:%d" % (i, l)) in S.out:
                t = T("Q:%d:%d" % (i, l), "qq%d" % i, X[i])
                yield ("C02:one-polynomial-per-interval[piece=%d,lane=%d]" % (i, l), [t[k] - left[i][k] for k in range(5)])
        for i in range(1, n - 1):
            yield ("C02:c1[knot=%d,lane=%d]" % (i, l), [right[i - 1][1] - left[i][1]])
            yield ("C02:c2[knot=%d,lane=%d]" % (i, l), [right[i - 1][2] - left[i][2]])
        for i in range(1, n):
            key = "K:%d:%d" % (i, l)
            if key in S.out:
                b = min(i, n - 2)
                t = T(key, "qk%d" % i, X[i])
                ref = left[b] if b == i else right[b]
                yield ("C02:knot-query-uses-its-own-piece[knot=%d,lane=%d]" % (i, l), [t[k] - ref[k] for k in range(5)])
        lb, rb = S.sides[l]
        # ---- left end
        if lb == "Natural":
            yield ("C03:bc-left[Natural,lane=%d]" % l, [left[0][2]])
        elif lb == "Clamped":
            yield ("C03:bc-left[Clamped,lane=%d]" % l, [left[0][1]])
        elif lb == "FirstDeriv":
            yield ("C03:bc-left[FirstDeriv,lane=%d]" % l, [left[0][1] - env["vl_%d" % l]])
        elif lb == "SecondDeriv":
            yield ("C03:bc-left[SecondDeriv,lane=%d]" % l, [two * left[0][2] - env["vl_%d" % l]])
        elif lb == "NotAKnot":
            if n == 3 and rb != "NotAKnot":
                # one interior knot: continuity of S''' across x1
                yield ("C03:bc-left[NotAKnot,lane=%d]" % l, [right[0][3] - left[1][3]])
            elif n == 3:
                yield ("C03:bc-both[NotAKnot,n=3 parabola,lane=%d]" % l, [left[0][3], left[1][3], right[0][1] - left[1][1], right[0][2] - left[1][2]])
            else:
                yield ("C03:bc-left[NotAKnot,lane=%d]" % l, [right[0][3] - left[1][3]])
        # ---- right end
        if rb == "Natural":
            yield ("C03:bc-right[Natural,lane=%d]" % l, [right[n - 2][2]])
        elif rb == "Clamped":
            yield ("C03:bc-right[Clamped,lane=%d]" % l, [right[n - 2][1]])
        elif rb == "FirstDeriv":
            yield ("C03:bc-right[FirstDeriv,lane=%d]" % l, [right[n - 2][1] - env["vr_%d" % l]])
        elif rb == "SecondDeriv":
            yield ("C03:bc-right[SecondDeriv,lane=%d]" % l, [two * right[n - 2][2] - env["vr_%d" % l]])
        elif rb == "NotAKnot" and not (n == 3 and lb == "NotAKnot"):
            yield ("C03:bc-right[NotAKnot,lane=%d]" % l, [right[n - 3][3] - left[n - 2][3]])
        if S.periodic:
            yield ("C03:bc-periodic[lane=%d]" % l, [left[0][1] - right[n - 2][1], left[0][2] - right[n - 2][2]])
        # ---- range guard / extrapolation flag (C05, C06): outside queries are rejected iff extrapolation is off
        if l == 0:
            outside_ok = [k for k in ("PL:0", "PR:0", "PLE:0", "PRE:0") if k in S.out]
            outside_err = [k for k in ("PL:ERR", "PR:ERR", "PLE:ERR", "PRE:ERR") if k in S.out]
            if S.extrap:
                yield ("C06:never-rejects-outside[%s]" % S.bc, [F.one] if outside_err else [F.zero])
            else:
                yield ("C05:outside-rejected-without-extrapolation[%s]" % S.bc, [F.one] if outside_ok else [F.zero])
        # ---- extrapolation continues the end polynomial (C06)
        if ("PL:%d" % l) in S.out and not S.periodic:
            pl = T("PL:%d" % l, "qL", X[0])
            pr = T("PR:%d" % l, "qR", X[n - 1])
            yield ("C06:extrap-left-is-end-cubic[lane=%d]" % l, [pl[k] - left[0][k] for k in range(5)])
            yield ("C06:extrap-right-is-end-cubic[lane=%d]" % l, [pr[k] - right[n - 2][k] for k in range(5)])
        # ---- periodic evaluation (C07): S(q + kP) == S(q) as functions of q
        if S.periodic and S.extrap:
            P = X[n - 1] - X[0]
            for key in S.out:
                if key.startswith("PF:") and key.endswith(":%d" % l):
                    _, kk, i, _l = key.split(":")
                    k = -int(kk[1:]) if kk.startswith("m") else int(kk)
                    i = int(i)
                    far = T(key, "qF%s_%d" % (kk, i), X[i] + F.num(k) * P)
                    yield ("C07:periodic-shift[k=%d,piece=%d,lane=%d]" % (k, i, l), [far[j] - left[i][j] for j in range(5)])
            yield ("C07:ends-equal[lane=%d]" % l, [left[0][0] - right[n - 2][0]])


def reproduction_obligations(S, F):
    """C16: data sampled from a polynomial the boundary conditions admit is reproduced on every piece"""
    n, lanes = S.n, S.lanes
    C = [F.gen["C%d" % k] for k in range(4)]

    def degree_for(l):
        lb, rb = S.sides[l]
        degs = []
        for b in (lb, rb):
            degs.append({"NotAKnot": 3 if n >= 4 or (lb == rb == "NotAKnot") else 3, "Natural": 1, "Clamped": 0,
                         "FirstDeriv": 3, "SecondDeriv": 3, "Periodic": 0}[b])
        d = min(degs)
        if n == 3 and lb == "NotAKnot" and rb == "NotAKnot":
            d = 2
        return d

    for l in range(lanes):
        d = degree_for(l)
        coef = [C[k] if k <= d else F.zero for k in range(4)]

        def poly(x, coef=coef):
            return coef[0] + coef[1] * x + coef[2] * x * x + coef[3] * x * x * x

        def dpoly(x, coef=coef):
            return coef[1] + F.num(2) * coef[2] * x + F.num(3) * coef[3] * x * x

        def ddpoly(x, coef=coef):
            return F.num(2) * coef[2] + F.num(6) * coef[3] * x

        def ymap(k, v, env, l=l, poly=poly):
            i, ll = k[1:].split("_")
            return poly(env["x%s" % i]) if int(ll) == l else v

        def vmap(k, v, env, l=l, dpoly=dpoly, ddpoly=ddpoly):
            side, ll = k[1], int(k.split("_")[1])
            if ll != l:
                return v
            kind = S.sides[l][0 if side == "l" else 1]
            xe = env["x0"] if side == "l" else env["x%d" % (n - 1)]
            return dpoly(xe) if kind == "FirstDeriv" else ddpoly(xe)

        env = S.base_env(F, ymap=ymap, vmap=vmap)
        X = [env["x%d" % i] for i in range(n)]
        for i in range(n - 1):
            t = S.taylor(F, env, "P:%d:%d" % (i, l), "q%d" % i, X[i])
            want = [poly(X[i]), dpoly(X[i]), ddpoly(X[i]) / F.num(2), coef[3], F.zero]
            yield ("C16:reproduce[deg<=%d,piece=%d,lane=%d]" % (d, i, l), [t[k] - want[k] for k in range(5)])
        if ("PL:%d" % l) in S.out and not S.periodic:
            t = S.taylor(F, env, "PL:%d" % l, "qL", X[0])
            want = [poly(X[0]), dpoly(X[0]), ddpoly(X[0]) / F.num(2), coef[3], F.zero]
            yield ("C16:reproduce-extrapolated-left[deg<=%d,lane=%d]" % (d, l), [t[k] - want[k] for k in range(5)])
            t = S.taylor(F, env, "PR:%d" % l, "qR", X[n - 1])
            want = [poly(X[n - 1]), dpoly(X[n - 1]), ddpoly(X[n - 1]) / F.num(2), coef[3], F.zero]
            yield ("C16:reproduce-extrapolated-right[deg<=%d,lane=%d]" % (d, l), [t[k] - want[k] for k in range(5)])


def units_obligations(S, F):
    """C15: axis units (x -> c*x + s, c > 0), data units (y -> d*y), additivity"""
    n, lanes = S.n, S.lanes
    c, s, d = F.gen["SC"], F.gen["SS"], F.gen["SD"]
    env0 = S.base_env(F)

    def vscale(k, v, env):
        side, ll = k[1], int(k.split("_")[1])
        kind = S.sides[ll][0 if side == "l" else 1]
        return d * v / c if kind == "FirstDeriv" else d * v / (c * c)

    env1 = S.base_env(F, xmap=lambda k, v: c * v + s, ymap=lambda k, v, e: d * v, vmap=vscale)
    keys = [k for k in S.out if k.startswith("P:") or (k.startswith(("PL:", "PR:")) and not k.endswith("ERR"))]
    for key in sorted(keys):
        if key.startswith("P:"):
            i = int(key.split(":")[1]); qv = "q%d" % i; at = env0["x%d" % i]
        elif key.startswith("PL:"):
            qv = "qL"; at = env0["x0"]
        else:
            qv = "qR"; at = env0["x%d" % (n - 1)]
        t0 = S.taylor(F, env0, key, qv, at)
        # new query Q = c*q + s; Taylor coefficients w.r.t. Q: d * c_k / c^k
        t1 = S.taylor(F, env1, key, qv, c * at + s)
        res = []
        ck = F.one
        for k in range(5):
            res.append(t1[k] * ck - d * t0[k])
            ck = ck * c
        yield ("C15:units[%s]" % key, res)
    # additivity: y -> y + z, v -> v + w
    def yadd(k, v, env):
        return v + F.gen["Z" + k[1:]]

    def vadd(k, v, env):
        return v + F.gen["W" + k[1:]]

    env2 = S.base_env(F, ymap=yadd, vmap=vadd)
    env3 = S.base_env(F, ymap=lambda k, v, e: F.gen["Z" + k[1:]], vmap=lambda k, v, e: F.gen["W" + k[1:]])
    if S.periodic:
        for l in range(lanes):
            for e in (env2, env3):
                e["y%d_%d" % (n - 1, l)] = e["y0_%d" % l]
    for key in sorted(keys):
        if key.startswith("P:"):
            i = int(key.split(":")[1]); qv = "q%d" % i; at = env0["x%d" % i]
        elif key.startswith("PL:"):
            qv = "qL"; at = env0["x0"]
        else:
            qv = "qR"; at = env0["x%d" % (n - 1)]
        t0 = S.taylor(F, env0, key, qv, at)
        t2 = S.taylor(F, env2, key, qv, at)
        t3 = S.taylor(F, env3, key, qv, at)
        yield ("C15:additive[%s]" % key, [t2[k] - t0[k] - t3[k] for k in range(5)])


def support_obligations(S):
    """C08: lane j's outputs mention only the axis, the query, lane j's data and lane j's boundary values"""
    for key, node in S.out.items():
        if key.endswith("ERR"):
            continue
        l = int(key.split(":")[-1])
        sup = support(S.scn, node)
        bad = [v for v in sup if ((v.startswith("y") or v.startswith("v")) and "_" in v and int(v.split("_")[1]) != l) or (v.startswith("z") and int(v.split("_")[-1]) != l)]
        yield ("C08:support[%s]" % key, bad)


# ----------------------------------------------------------------------------------------------
def extra_gens(S):
    g = ["C0", "C1", "C2", "C3", "SC", "SS", "SD", "QX", "QY"]
    for v in S.gens():
        if v.startswith("y"):
            g.append("Z" + v[1:])
        if v.startswith("v"):
            g.append("W" + v[1:])
    return g


def linear_obligations(S, F):
    """C01 / C06 / C16 / C20 for the Linear strategy on the real code's recorded DAG"""
    n, lanes = S.n, S.lanes
    env = S.base_env(F)
    X = [env["x%d" % i] for i in range(n)]
    for l in range(lanes):
        Y = [env["y%d_%d" % (i, l)] for i in range(n)]
        pieces = []
        for i in range(n - 1):
            t = S.taylor(F, env, "P:%d:%d" % (i, l), "q%d" % i, X[i])
            pieces.append(t)
            slope = (Y[i + 1] - Y[i]) / (X[i + 1] - X[i])
            yield ("C01:line[piece=%d,lane=%d]" % (i, l), [t[0] - Y[i], t[1] - slope, t[2], t[3], t[4]])
            sup = support(S.scn, S.out["P:%d:%d" % (i, l)])
            allowed = {"x%d" % i, "x%d" % (i + 1), "y%d_%d" % (i, l), "y%d_%d" % (i + 1, l), "q%d" % i}
            yield ("C20:support[piece=%d,lane=%d]" % (i, l), [F.one] if (sup - allowed) else [F.zero])
            if ("Q:%d:%d" % (i, l)) in S.out:
                t2 = S.taylor(F, env, "Q:%d:%d" % (i, l), "qq%d" % i, X[i])
                yield ("C01:one-line-per-interval[piece=%d,lane=%d]" % (i, l), [t2[k] - t[k] for k in range(5)])
                sup = support(S.scn, S.out["Q:%d:%d" % (i, l)])
                allowed = {"x%d" % i, "x%d" % (i + 1), "y%d_%d" % (i, l), "y%d_%d" % (i + 1, l), "qq%d" % i}
                yield ("C20:support[piece=%d,lane=%d,second query]" % (i, l), [F.one] if (sup - allowed) else [F.zero])
        for i in range(1, n):
            key = "K:%d:%d" % (i, l)
            if key not in S.out:
                continue
            b = min(i, n - 2)          # the interval that starts at knot i (the last interval for the last knot)
            t = S.taylor(F, env, key, "qk%d" % i, X[i])
            ref = S.taylor(F, env, "P:%d:%d" % (b, l), "q%d" % b, X[i])
            yield ("C01:knot-query-uses-its-own-interval[knot=%d,lane=%d]" % (i, l), [t[k] - ref[k] for k in range(5)] + [t[0] - Y[i]])
            sup = support(S.scn, S.out[key])
            allowed = {"x%d" % b, "x%d" % (b + 1), "y%d_%d" % (b, l), "y%d_%d" % (b + 1, l), "qk%d" % i}
            yield ("C20:support[knot=%d,lane=%d]" % (i, l), [F.one] if (sup - allowed) else [F.zero])
        if S.extrap:
            if ("PL:%d" % l) in S.out:
                t = S.taylor(F, env, "PL:%d" % l, "qL", X[0])
                yield ("C06:extrap-left-is-end-line[lane=%d]" % l, [t[k] - pieces[0][k] for k in range(5)])
                t = S.taylor(F, env, "PR:%d" % l, "qR", X[n - 2])
                yield ("C06:extrap-right-is-end-line[lane=%d]" % l, [t[k] - pieces[n - 2][k] for k in range(5)])
            else:
                yield ("C06:never-rejects-outside[linear]", [F.one])
        else:
            yield ("C05:outside-rejected-without-extrapolation[linear]", [F.one] if any(("%s:%d" % (k, l)) in S.out for k in ("PL", "PR", "PLE", "PRE")) else [F.zero])


def bilinear_obligations(S, F):
    """C04 / C06 / C20 for Bilinear: every cell's output is the weight-form blend of its four corners"""
    scn = S.scn
    nx, ny, lanes = scn["nx"], scn["ny"], scn["lanes"]
    env = {v: F.gen[v] for v in S.gens()}
    ev = Ev(scn, F.zero, F.one, F.conv)

    def val(key, qxn, qyn, qxv, qyv):
        e = {k: Jet.const(v, F.zero) for k, v in env.items()}
        e[qxn] = Jet.const(qxv, F.zero); e[qyn] = Jet.const(qyv, F.zero)
        return ev.run(e, [S.out[key]])[0].c[0]

    def blend(i, k, l, qx, qy):
        x1, x2, y1, y2 = env["x%d" % i], env["x%d" % (i + 1)], env["y%d" % k], env["y%d" % (k + 1)]
        z = lambda a, b: env["z%d_%d_%d" % (a, b, l)]
        return (z(i, k) * (x2 - qx) * (y2 - qy) + z(i + 1, k) * (qx - x1) * (y2 - qy) + z(i, k + 1) * (x2 - qx) * (qy - y1) + z(i + 1, k + 1) * (qx - x1) * (qy - y1)) / ((x2 - x1) * (y2 - y1))

    QX, QY = F.gen["QX"], F.gen["QY"]
    for l in range(lanes):
        for i in range(nx - 1):
            for k in range(ny - 1):
                key = "B:%d:%d:%d" % (i, k, l)
                got = val(key, "qx%d_%d" % (i, k), "qy%d_%d" % (i, k), QX, QY)
                yield ("C04:bilinear-blend[cell=%d,%d,lane=%d]" % (i, k, l), [got - blend(i, k, l, QX, QY)])
                sup = support(scn, S.out[key])
                allowed = {"x%d" % i, "x%d" % (i + 1), "y%d" % k, "y%d" % (k + 1), "qx%d_%d" % (i, k), "qy%d_%d" % (i, k)} | {"z%d_%d_%d" % (a, b, l) for a in (i, i + 1) for b in (k, k + 1)}
                yield ("C20:support[cell=%d,%d,lane=%d]" % (i, k, l), [F.one] if (sup - allowed) else [F.zero])
        if S.extrap:
            for key, qxn, qyn, (ci, ck) in (("BX", "qxo", "qyi", (nx - 2, 0)), ("BY", "qxi", "qyo", (0, 0)), ("BXY", "qxo2", "qyo2", (0, ny - 2))):
                kk = "%s:%d" % (key, l)
                if kk not in S.out:
                    yield ("C06:never-rejects-outside[bilinear,%s]" % key, [F.one])
                    continue
                got = val(kk, qxn, qyn, QX, QY)
                yield ("C06:extrap-is-border-cell[%s,lane=%d]" % (key, l), [got - blend(ci, ck, l, QX, QY)])
        else:
            bad = [k for k in ("BX:%d" % l, "BY:%d" % l, "BXY:%d" % l) if k in S.out]
            yield ("C05:outside-rejected-without-extrapolation[bilinear,lane=%d]" % l, [F.one] if bad else [F.zero])


def run_family(S, fam, F):
    if S.scn.get("strat") == "linear":
        return linear_obligations(S, F) if fam == "shape" else iter(())
    if S.scn.get("strat") == "bilinear":
        return bilinear_obligations(S, F) if fam == "shape" else iter(())
    if fam == "shape":
        return spline_obligations(S, F)
    if fam == "repro":
        return reproduction_obligations(S, F)
    if fam == "units":
        return units_obligations(S, F)
    raise ValueError(fam)


def decide_scenario(scn, families, mode, seed, points=3):
    """returns list of dict(name, ok, mode, detail)"""
    S = SplineScn(scn)
    results = []
    if scn["result"] != "ok":
        return [dict(name="S:run[%s]" % scn["scenario"], ok=False, mode="run", detail="real code returned %s" % scn["result"])]
    names = S.gens() + extra_gens(S)
    rng = random.Random(seed)
    shadows = dict(S.vars)

    def pit_field(jitter):
        F = Field(names, "pit")
        pt = rational_point(names, shadows, rng, jitter)
        pt["QX"] = Fraction(rng.randint(-50, 50), 7); pt["QY"] = Fraction(rng.randint(-50, 50), 11)
        pt["SC"] = Fraction(rng.randint(2, 9), rng.randint(1, 5)); pt["SS"] = Fraction(rng.randint(-9, 9), 4); pt["SD"] = Fraction(rng.randint(-9, 9) or 3, 7)
        F.point(pt)
        return F, pt

    for fam in families:
        if fam == "support":
            for name, bad in support_obligations(S):
                results.append(dict(name="S:" + name, ok=not bad, mode="syntactic-support", detail="foreign variables: %s" % bad if bad else ""))
            continue
        if mode == "sym":
            F = Field(names, "sym")
            try:
                obs = list(run_family(S, fam, F))
            except ZeroDivisionError as e:
                # exact arithmetic in Q(inputs): the divisor is the ZERO ELEMENT of the field, i.e. the recorded code divides by an
                # expression that vanishes for EVERY input of this shape (a singular system): no input gets a number -> violation
                Fp, pt = pit_field(False)
                for pid_ in ("C02", "C03", "C16"):      # no value at all: not an interpolant, no end condition met, nothing reproduced
                    results.append(dict(name="S:%s:divides-by-identically-zero[%s]" % (pid_, fam), ok=False, mode="exact-symbolic Q(%d gens)" % len(names),
                                        detail=dict(witness={k: str(v) for k, v in pt.items() if k in shadows or k[0] in "CS"},
                                                    residuals=["division by an expression that is identically zero in Q(inputs): %s" % e])))
                continue
            failed = []
            for name, res in obs:
                ok = all(r == 0 for r in res)
                results.append(dict(name="S:" + name, ok=ok, mode="exact-symbolic Q(%d gens)" % len(names), detail=""))
                if not ok:
                    failed.append(name)
            if failed:
                # witness: exact evaluation at the shadow point
                Fp, pt = pit_field(False)
                for name, res in run_family(S, fam, Fp):
                    if name in failed:
                        for r in results:
                            if r["name"] == "S:" + name:
                                r["detail"] = dict(witness={k: str(v) for k, v in pt.items() if k in shadows or k[0] in "CS"}, residuals=[str(x) for x in res])
        else:
            agg = {}
            first_pt = None
            zero_div = []
            for p in range(points):
                Fp, pt = pit_field(p > 0)
                try:
                    obs = list(run_family(S, fam, Fp))
                except ZeroDivisionError:
                    zero_div.append(pt)
                    continue
                for name, res in obs:
                    ok = all(r == 0 for r in res)
                    a = agg.setdefault(name, dict(ok=True, detail=""))
                    if not ok and a["ok"]:
                        a["ok"] = False
                        a["detail"] = dict(witness={k: str(v) for k, v in pt.items() if k in shadows or k[0] in "CS"}, residuals=[str(x) for x in res])
            if zero_div and len(zero_div) == points:
                # every one of the independent random rational points divides by zero: the divisor vanishes identically (identity test)
                for pid_ in ("C02", "C03", "C16"):
                    results.append(dict(name="S:%s:divides-by-zero-at-every-point[%s]" % (pid_, fam), ok=False,
                                        mode="exact evaluation at %d rational points (identity test)" % points,
                                        detail=dict(witness={k: str(v) for k, v in zero_div[0].items() if k in shadows or k[0] in "CS"},
                                                    residuals=["division by zero at each of %d independent random rational points" % points])))
            for name, a in agg.items():
                results.append(dict(name="S:" + name, ok=a["ok"], mode="exact evaluation at %d rational points (identity test)" % points, detail=a["detail"]))
    return results


def main():
    path, families, mode_rule, seed = sys.argv[1], sys.argv[2].split(","), sys.argv[3], int(sys.argv[4])
    points = int(sys.argv[5]) if len(sys.argv) > 5 else 3
    out = []
    for ln in open(path):
        ln = ln.strip()
        if not ln:
            continue
        scn = json.loads(ln)
        if "n" not in scn:
            continue
        t0 = time.time()
        # mode rule: "sym<=4" -> symbolic up to n=4, identity test above
        lim = int(mode_rule.split("<=")[1]) if mode_rule.startswith("sym<=") else (99 if mode_rule == "sym" else 0)
        nvars = scn["n"] * (1 + scn["lanes"])
        mode = "sym" if (scn["n"] <= lim and scn["lanes"] <= 2) else "pit"
        res = decide_scenario(scn, families, mode, seed, points)
        out.append(dict(scenario=scn["scenario"], mode=mode, seconds=round(time.time() - t0, 2), results=res))
    json.dump(out, sys.stdout)


if __name__ == "__main__":
    main()
