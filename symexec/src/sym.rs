//! `Sym`: a term-recording scalar.  Every arithmetic operation appends a node to a thread-local,
//! hash-consed expression DAG; a concrete f64 shadow decides comparisons, casts to integers and
//! the integer quotient inside `rem_euclid`.  Same operation on the same operands => same node.
use std::cell::RefCell;
use std::collections::HashMap;
use std::fmt;
use std::ops::{Add, Div, Mul, Neg, Rem, Sub, SubAssign};

use ndarray::ScalarOperand;
use num_traits::{Euclid, Num, NumCast, One, Pow, ToPrimitive, Zero};

#[derive(Clone, Debug, PartialEq, Eq, Hash)]
pub enum Node {
    Var(String),
    Const(i128, i128), // num / den, den > 0, reduced
    Add(u32, u32),
    Sub(u32, u32),
    Mul(u32, u32),
    Div(u32, u32),
    Neg(u32),
}

#[derive(Default)]
pub struct Arena {
    pub nodes: Vec<Node>,
    pub shadow: Vec<f64>,
    pub intern: HashMap<Node, u32>,
    pub decisions: Vec<String>,
}

thread_local! { pub static ARENA: RefCell<Arena> = RefCell::new(Arena::default()); }

#[derive(Clone, Copy)]
pub struct Sym(pub u32);

fn gcd(a: i128, b: i128) -> i128 { if b == 0 { a.abs() } else { gcd(b, a % b) } }

pub fn mk(node: Node, shadow: f64) -> Sym {
    ARENA.with(|a| {
        let mut a = a.borrow_mut();
        if let Some(&id) = a.intern.get(&node) { return Sym(id); }
        let id = a.nodes.len() as u32;
        a.nodes.push(node.clone());
        a.shadow.push(shadow);
        a.intern.insert(node, id);
        Sym(id)
    })
}
pub fn reset() { ARENA.with(|a| *a.borrow_mut() = Arena::default()); }
pub fn var(name: &str, shadow: f64) -> Sym { mk(Node::Var(name.to_string()), shadow) }
pub fn konst_frac(num: i128, den: i128) -> Sym {
    let (mut n, mut d) = (num, den);
    if d < 0 { n = -n; d = -d; }
    let g = gcd(n, d).max(1);
    n /= g; d /= g;
    mk(Node::Const(n, d), n as f64 / d as f64)
}
/// exact rational value of a finite f64 (every finite double is a dyadic rational)
pub fn konst_f64(v: f64) -> Sym {
    assert!(v.is_finite(), "non-finite constant");
    if v == 0.0 { return konst_frac(0, 1); }
    let bits = v.to_bits();
    let sign: i128 = if bits >> 63 == 1 { -1 } else { 1 };
    let exp = ((bits >> 52) & 0x7ff) as i64;
    let frac = (bits & 0xfffffffffffff) as i128;
    let (mant, e) = if exp == 0 { (frac, -1074) } else { (frac | (1i128 << 52), exp - 1075) };
    let mut m = mant; let mut e = e;
    while m % 2 == 0 && e < 0 { m /= 2; e += 1; }
    assert!(e > -120 && e < 60, "constant out of the supported exponent range: {v}");
    if e >= 0 { konst_frac(sign * m * (1i128 << e), 1) } else { konst_frac(sign * m, 1i128 << (-e)) }
}
pub fn shadow(s: Sym) -> f64 { ARENA.with(|a| a.borrow().shadow[s.0 as usize]) }
pub fn decide(msg: String) { ARENA.with(|a| a.borrow_mut().decisions.push(msg)); }

impl fmt::Debug for Sym { fn fmt(&self, f: &mut fmt::Formatter<'_>) -> fmt::Result { write!(f, "n{}~{}", self.0, shadow(*self)) } }

impl Add for Sym { type Output = Sym; fn add(self, r: Sym) -> Sym { mk(Node::Add(self.0, r.0), shadow(self) + shadow(r)) } }
impl Sub for Sym { type Output = Sym; fn sub(self, r: Sym) -> Sym { mk(Node::Sub(self.0, r.0), shadow(self) - shadow(r)) } }
impl Mul for Sym { type Output = Sym; fn mul(self, r: Sym) -> Sym { mk(Node::Mul(self.0, r.0), shadow(self) * shadow(r)) } }
impl Div for Sym { type Output = Sym; fn div(self, r: Sym) -> Sym { mk(Node::Div(self.0, r.0), shadow(self) / shadow(r)) } }
impl Rem for Sym {
    type Output = Sym;
    /// float remainder: a - trunc(a/b)*b, the integer quotient taken from the shadows (logged as a decision)
    fn rem(self, r: Sym) -> Sym {
        let k = (shadow(self) / shadow(r)).trunc();
        decide(format!("rem n{} n{} k = {}", self.0, r.0, k));
        self - konst_frac(k as i128, 1) * r
    }
}
impl<'a> Rem<&'a Sym> for Sym { type Output = Sym; fn rem(self, r: &Sym) -> Sym { self % *r } }
impl Neg for Sym { type Output = Sym; fn neg(self) -> Sym { mk(Node::Neg(self.0), -shadow(self)) } }
impl SubAssign for Sym { fn sub_assign(&mut self, r: Sym) { *self = *self - r; } }
impl<'a> Add<&'a Sym> for Sym { type Output = Sym; fn add(self, r: &Sym) -> Sym { self + *r } }
impl<'a> Sub<&'a Sym> for Sym { type Output = Sym; fn sub(self, r: &Sym) -> Sym { self - *r } }
impl<'a> Mul<&'a Sym> for Sym { type Output = Sym; fn mul(self, r: &Sym) -> Sym { self * *r } }
impl<'a> Div<&'a Sym> for Sym { type Output = Sym; fn div(self, r: &Sym) -> Sym { self / *r } }
impl<'a> Add<Sym> for &'a Sym { type Output = Sym; fn add(self, r: Sym) -> Sym { *self + r } }
impl<'a> Sub<Sym> for &'a Sym { type Output = Sym; fn sub(self, r: Sym) -> Sym { *self - r } }
impl<'a> Mul<Sym> for &'a Sym { type Output = Sym; fn mul(self, r: Sym) -> Sym { *self * r } }
impl<'a> Div<Sym> for &'a Sym { type Output = Sym; fn div(self, r: Sym) -> Sym { *self / r } }
impl<'a, 'b> Add<&'b Sym> for &'a Sym { type Output = Sym; fn add(self, r: &Sym) -> Sym { *self + *r } }
impl<'a, 'b> Sub<&'b Sym> for &'a Sym { type Output = Sym; fn sub(self, r: &Sym) -> Sym { *self - *r } }
impl<'a, 'b> Mul<&'b Sym> for &'a Sym { type Output = Sym; fn mul(self, r: &Sym) -> Sym { *self * *r } }
impl<'a, 'b> Div<&'b Sym> for &'a Sym { type Output = Sym; fn div(self, r: &Sym) -> Sym { *self / *r } }

impl PartialEq for Sym {
    fn eq(&self, o: &Sym) -> bool {
        let r = self.0 == o.0 || shadow(*self) == shadow(*o);
        if self.0 != o.0 { decide(format!("eq n{} n{} = {}", self.0, o.0, r)); }
        r
    }
}
impl PartialOrd for Sym {
    fn partial_cmp(&self, o: &Sym) -> Option<std::cmp::Ordering> {
        let r = shadow(*self).partial_cmp(&shadow(*o));
        decide(format!("cmp n{} n{} = {:?}", self.0, o.0, r));
        r
    }
}
impl Zero for Sym { fn zero() -> Sym { konst_frac(0, 1) } fn is_zero(&self) -> bool { shadow(*self) == 0.0 } }
impl One for Sym { fn one() -> Sym { konst_frac(1, 1) } }
impl Num for Sym {
    type FromStrRadixErr = ();
    fn from_str_radix(_s: &str, _r: u32) -> Result<Sym, ()> { Err(()) }
}
impl ToPrimitive for Sym {
    fn to_i64(&self) -> Option<i64> { let v = shadow(*self); decide(format!("to_i64 n{} = {}", self.0, v)); v.to_i64() }
    fn to_u64(&self) -> Option<u64> { let v = shadow(*self); decide(format!("to_u64 n{} = {}", self.0, v)); v.to_u64() }
    fn to_f64(&self) -> Option<f64> { Some(shadow(*self)) }
}
impl NumCast for Sym {
    fn from<N: ToPrimitive>(n: N) -> Option<Sym> {
        // integers are taken exactly, floats as their exact dyadic value
        if let Some(f) = n.to_f64() {
            if f.fract() == 0.0 && f.abs() < 9.0e15 { return Some(konst_frac(f as i128, 1)); }
            if f.is_finite() { return Some(konst_f64(f)); }
        }
        None
    }
}
impl Pow<Sym> for Sym {
    type Output = Sym;
    fn pow(self, e: Sym) -> Sym {
        let ev = shadow(e);
        assert!(ev == 2.0, "Sym::pow: only exponent 2 is modelled (got {ev})");
        self * self
    }
}
impl ScalarOperand for Sym {}
impl Euclid for Sym {
    fn div_euclid(&self, v: &Sym) -> Sym {
        let k = shadow(*self).div_euclid(shadow(*v));
        decide(format!("div_euclid n{} n{} = {}", self.0, v.0, k));
        konst_frac(k as i128, 1)
    }
    fn rem_euclid(&self, v: &Sym) -> Sym {
        let k = shadow(*self).div_euclid(shadow(*v));
        decide(format!("rem_euclid n{} n{} k = {}", self.0, v.0, k));
        *self - konst_frac(k as i128, 1) * *v
    }
}
