//! Directed witness search used ONLY after a Verus obligation failed: runs the real crate at f64 on small
//! shapes against the property's own oracle and prints the first concrete failing input (if any).
use std::panic::{catch_unwind, AssertUnwindSafe};

use ndarray::{Array1, Array2};
use ndarray_interp::interp1d::cubic_spline::{BoundaryCondition, CubicSpline, RowBoundary, SingleBoundary};
use ndarray_interp::interp1d::{Interp1DBuilder, Linear};
use ndarray_interp::interp2d::{Bilinear, Interp2DBuilder};
use ndarray_interp::vector_extensions::{Monotonic, VectorExtensions};

thread_local! { static LAST: std::cell::RefCell<Option<(bool, String, String, String)>> = std::cell::RefCell::new(None); }
fn out(found: bool, _unit: &str, input: String, expected: String, observed: String) {
    LAST.with(|l| *l.borrow_mut() = Some((found, input, expected, observed)));
}
/// run the oracle for `unit`; returns (violation found, input, expected, observed)
pub fn run(unit: &str) -> (bool, String, String, String) {
    LAST.with(|l| *l.borrow_mut() = None);
    probe_inner(unit);
    LAST.with(|l| l.borrow().clone()).unwrap_or((false, "no result".into(), String::new(), String::new()))
}
pub fn probe(unit: &str) {
    let (found, input, expected, observed) = run(unit);
    print_json(found, unit, input, expected, observed);
}
fn print_json(found: bool, unit: &str, input: String, expected: String, observed: String) {
    println!("{{\"probe\":\"{}\",\"found\":{},\"input\":\"{}\",\"expected\":\"{}\",\"observed\":\"{}\"}}", unit, found, input.replace('"', "'"), expected.replace('"', "'"), observed.replace('"', "'"));
}

fn axes() -> Vec<Vec<f64>> {
    let mut v = vec![
        vec![0.0, 1.0], vec![-1.0, 0.5, 3.0], vec![0.0, 1.0, 2.0, 3.0], vec![0.0, 1.0, 3.0, 3.5], vec![-2.0, -1.5, 0.0, 4.0, 4.25],
        vec![0.0, 0.125, 0.25, 8.0, 9.0, 100.0], vec![1.0, 2.0, 4.0, 8.0, 16.0, 32.0, 64.0], vec![0.0, 10.0, 10.5, 11.0, 11.25, 20.0, 21.0, 30.0],
        vec![1e-3, 1.0, 1.0000000000000002, 5.0],
        vec![-4.0, -3.5, -3.0, 2.0], vec![-40.0, -39.0, 0.3], vec![1e-20, 2e-20, 3.5e-20, 3.6e-20], vec![6.0e-34, 6.5e-34, 6.6e-34],
    ];
    v.push((0..17).map(|i| (i * i) as f64 * 0.25).collect());
    v.push((0..40).map(|i| 1.07f64.powi(i) - 3.0).collect());
    v.push((0..100).map(|i| (i as f64) * 0.1 + if i % 7 == 0 { 0.03 } else { 0.0 }).collect());
    v.push((0..33).map(|i| (i as f64).sqrt() * 3.0 - 2.0).collect());
    v.push((0..9).map(|i| i as f64).collect());
    v
}
fn queries(ax: &[f64]) -> Vec<f64> {
    let mut q = vec![f64::NEG_INFINITY, f64::INFINITY, f64::MAX, f64::MIN, ax[0] - 1.0, ax[ax.len() - 1] + 1.0, 0.0, -0.0];
    q.extend(extra_queries());
    for (i, &k) in ax.iter().enumerate() {
        q.push(k);
        q.push(f64::from_bits(if k > 0.0 { k.to_bits() + 1 } else if k < 0.0 { k.to_bits() - 1 } else { 1 }));
        q.push(f64::from_bits(if k > 0.0 { k.to_bits() - 1 } else if k < 0.0 { k.to_bits() + 1 } else { (1u64 << 63) | 1 }));
        if i + 1 < ax.len() { q.push(k + (ax[i + 1] - k) * 0.5); q.push(k + (ax[i + 1] - k) * 0.3125); q.push(k + (ax[i + 1] - k) * 0.9375); }
    }
    q
}
thread_local! { static WITH_NAN: std::cell::Cell<bool> = std::cell::Cell::new(false); }
fn extra_queries() -> Vec<f64> { if WITH_NAN.with(|w| w.get()) { vec![f64::NAN] } else { vec![] } }
fn want_index(ax: &[f64], q: f64) -> usize {
    let n = ax.len();
    if q <= ax[0] { return 0; }
    if q >= ax[n - 1] { return n - 2; }
    let mut i = 0;
    while !(ax[i] <= q && q < ax[i + 1]) { i += 1; }
    i
}

fn probe_inner(unit: &str) {
    match unit {
        "get_lower_index" | "Interp1D::get_index_left_of" | "Interp2D::get_index_left_of" => {
            for ax in axes() {
                let a = Array1::from(ax.clone());
                for q in queries(&ax) {
                    let want = want_index(&ax, q);
                    let got = catch_unwind(AssertUnwindSafe(|| a.get_lower_index(q)));
                    match got {
                        Ok(g) if g == want => {}
                        Ok(g) => return out(true, unit, format!("axis={ax:?} query={q:e}"), format!("index {want}"), format!("index {g}")),
                        Err(_) => return out(true, unit, format!("axis={ax:?} query={q:e}"), format!("index {want}"), "panic".into()),
                    }
                }
            }
            // the same axes as reversed-stride arrays and as every-2nd-element views of a larger array
            for ax in axes() {
                let n = ax.len();
                let mut rev = Array1::from(ax.iter().rev().copied().collect::<Vec<_>>());
                rev.invert_axis(ndarray::Axis(0));
                let mut big = Array1::from_elem(2 * n + 1, f64::NAN);
                big.slice_mut(ndarray::s![1..;2]).assign(&Array1::from(ax.clone()));
                let strided = big.slice(ndarray::s![1..;2]);
                for q in queries(&ax) {
                    let want = want_index(&ax, q);
                    for (nm, got) in [("reversed-stride axis", catch_unwind(AssertUnwindSafe(|| rev.get_lower_index(q)))), ("strided axis view", catch_unwind(AssertUnwindSafe(|| strided.get_lower_index(q))))] {
                        match got {
                            Ok(g) if g == want => {}
                            Ok(g) => return out(true, unit, format!("{nm} {ax:?} query={q:e}"), format!("index {want}"), format!("index {g}")),
                            Err(_) => return out(true, unit, format!("{nm} {ax:?} query={q:e}"), format!("index {want}"), "panic".into()),
                        }
                    }
                }
            }
            // integer-valued axes (i32 / i64)
            let int_axes: Vec<Vec<i64>> = vec![vec![0, 1, 2, 3], vec![-5, -1, 0, 7, 8, 100], vec![0, 4, 5, 6, 8], vec![0, 1_000_000_000, 2_000_000_000], vec![-2_000_000_000, 0, 2_000_000_000], vec![1, 2, 4, 8, 16, 32, 64, 128, 1024]];
            for ax in int_axes {
                let n = ax.len();
                let mut qs: Vec<i64> = vec![ax[0] - 1, ax[n - 1] + 1];
                for (i, &k) in ax.iter().enumerate() { qs.push(k); qs.push(k + 1); qs.push(k - 1); if i + 1 < n { qs.push(k + (ax[i + 1] - k) / 2); } }
                for q in qs {
                    let want = if q <= ax[0] { 0 } else if q >= ax[n - 1] { n - 2 } else { (0..n - 1).find(|&i| ax[i] <= q && q < ax[i + 1]).unwrap() };
                    let a64 = Array1::from(ax.clone());
                    match catch_unwind(AssertUnwindSafe(|| a64.get_lower_index(q))) {
                        Ok(g) if g == want => {}
                        Ok(g) => return out(true, unit, format!("i64 axis={ax:?} query={q}"), format!("index {want}"), format!("index {g}")),
                        Err(_) => return out(true, unit, format!("i64 axis={ax:?} query={q}"), format!("index {want}"), "panic".into()),
                    }
                    if ax.iter().all(|v| v.abs() <= i32::MAX as i64) && q.abs() <= i32::MAX as i64 {
                        let a32 = Array1::from(ax.iter().map(|v| *v as i32).collect::<Vec<_>>());
                        match catch_unwind(AssertUnwindSafe(|| a32.get_lower_index(q as i32))) {
                            Ok(g) if g == want => {}
                            Ok(g) => return out(true, unit, format!("i32 axis={ax:?} query={q}"), format!("index {want}"), format!("index {g}")),
                            Err(_) => return out(true, unit, format!("i32 axis={ax:?} query={q}"), format!("index {want}"), "panic".into()),
                        }
                    }
                }
            }
            out(false, unit, String::new(), String::new(), String::new())
        }
        "MonotonicState::update" | "MonotonicState::finish" | "MonotonicState::short_circuit" | "MonotonicState::start" => {
            // every sequence of relations up to length 7, plus one NaN at every position
            for len in 0..8usize {
                let total = 3usize.pow(len.saturating_sub(1) as u32);
                for code in 0..total {
                    let mut v = vec![0.0f64; len];
                    let mut c = code;
                    for i in 1..len { let r = c % 3; c /= 3; v[i] = v[i - 1] + [1.0, 0.0, -1.0][r]; }
                    let rel: Vec<usize> = (1..len).map(|i| if v[i - 1] < v[i] { 0 } else if v[i - 1] == v[i] { 1 } else { 2 }).collect();
                    let want = if len < 2 { "NotMonotonic".to_string() }
                        else if rel.iter().all(|&r| r == 0) { "Rising{strict:true}".into() }
                        else if rel.iter().all(|&r| r == 2) { "Falling{strict:true}".into() }
                        else if rel.iter().all(|&r| r != 2) && rel.contains(&1) && rel.contains(&0) { "Rising{strict:false}".into() }
                        else if rel.iter().all(|&r| r != 0) && rel.contains(&1) && rel.contains(&2) { "Falling{strict:false}".into() }
                        else { "NotMonotonic".into() };
                    let show = |m: &Monotonic| match m { Monotonic::Rising { strict } => format!("Rising{{strict:{strict}}}"), Monotonic::Falling { strict } => format!("Falling{{strict:{strict}}}"), Monotonic::NotMonotonic => "NotMonotonic".to_string() };
                    let got = catch_unwind(AssertUnwindSafe(|| show(&Array1::from(v.clone()).monotonic_prop()))).unwrap_or("panic".into());
                    if got != want { return out(true, unit, format!("vector={v:?}"), want, got); }
                    // the same logical vector as a reversed-stride view and as an every-2nd-element view
                    let mut rv = Array1::from(v.iter().rev().copied().collect::<Vec<_>>());
                    rv.invert_axis(ndarray::Axis(0));
                    let got = catch_unwind(AssertUnwindSafe(|| show(&rv.monotonic_prop()))).unwrap_or("panic".into());
                    if got != want { return out(true, unit, format!("reversed-stride view of {v:?}"), want, got); }
                    let mut big = Array1::from_elem(2 * len + 1, f64::NAN);
                    if len > 0 { big.slice_mut(ndarray::s![1..;2]).assign(&Array1::from(v.clone())); }
                    let got = catch_unwind(AssertUnwindSafe(|| show(&big.slice(ndarray::s![1..;2]).monotonic_prop()))).unwrap_or("panic".into());
                    if got != want { return out(true, unit, format!("strided view of {v:?}"), want, got); }
                    for k in 0..len {
                        let mut w = v.clone(); w[k] = f64::NAN;
                        let got = catch_unwind(AssertUnwindSafe(|| show(&Array1::from(w.clone()).monotonic_prop()))).unwrap_or("panic".into());
                        if got.starts_with("Rising") { return out(true, unit, format!("vector={w:?}"), "anything but Rising".into(), got); }
                    }
                }
            }
            // long vectors: strictly rising with exactly one defect (tie, swap, NaN) at every position
            for len in [9usize, 16, 17, 33] {
                let inc: Vec<f64> = (0..len).map(|i| i as f64 * 0.5 - 2.0).collect();
                let show = |m: &Monotonic| match m { Monotonic::Rising { strict } => format!("Rising{{strict:{strict}}}"), Monotonic::Falling { strict } => format!("Falling{{strict:{strict}}}"), Monotonic::NotMonotonic => "NotMonotonic".to_string() };
                let got = show(&Array1::from(inc.clone()).monotonic_prop());
                if got != "Rising{strict:true}" { return out(true, unit, format!("vector={inc:?}"), "Rising{strict:true}".into(), got); }
                for k in 0..len - 1 {
                    let mut t = inc.clone(); t[k + 1] = t[k];
                    let got = show(&Array1::from(t.clone()).monotonic_prop());
                    if got != "Rising{strict:false}" { return out(true, unit, format!("rising vector of length {len} with a tie at {k}"), "Rising{strict:false}".into(), got); }
                    let mut w = inc.clone(); w.swap(k, k + 1);
                    let got = show(&Array1::from(w.clone()).monotonic_prop());
                    if got != "NotMonotonic" { return out(true, unit, format!("rising vector of length {len} with a swap at {k}"), "NotMonotonic".into(), got); }
                }
                for k in 0..len {
                    let mut t = inc.clone(); t[k] = f64::NAN;
                    let got = show(&Array1::from(t.clone()).monotonic_prop());
                    if got.starts_with("Rising") { return out(true, unit, format!("rising vector of length {len} with NaN at {k}"), "anything but Rising".into(), got); }
                }
            }
            out(false, unit, String::new(), String::new(), String::new())
        }
        "Interp1D::is_in_range" | "Linear::interp_into" | "calc_frac" | "Interp1D::index_point" => {
            WITH_NAN.with(|w| w.set(true));
            for ax in axes() {
                let n = ax.len();
                for lanes in [1usize, 3] {
                    let data = Array2::from_shape_fn((n, lanes), |(i, j)| ((i * 7 + j * 5) % 11) as f64 * 0.5 - 2.0 + (j as f64) * 0.25);
                    for extrap in [false, true] {
                        let it = Interp1DBuilder::new(data.clone()).x(Array1::from(ax.clone())).strategy(Linear::new().extrapolate(extrap)).build().unwrap();
                        for q in queries(&ax) {
                            let inr = ax[0] <= q && q <= ax[n - 1];
                            if !q.is_finite() && extrap { continue; }
                            if q.is_nan() && extrap { continue; }
                            let r = catch_unwind(AssertUnwindSafe(|| it.interp(q)));
                            let r = match r { Ok(r) => r, Err(_) => return out(true, unit, format!("axis={ax:?} lanes={lanes} extrapolate={extrap} query={q:e}"), "no panic".into(), "panic".into()) };
                            if !extrap && !inr {
                                if r.is_ok() { return out(true, unit, format!("axis={ax:?} extrapolate=false query={q:e}"), "Err(OutOfBounds)".into(), format!("{:?}", r)); }
                                continue;
                            }
                            let got = match r { Ok(g) => g, Err(e) => return out(true, unit, format!("axis={ax:?} extrapolate={extrap} query={q:e}"), "Ok".into(), format!("Err({e})")) };
                            let i = want_index(&ax, q);
                            for j in 0..lanes {
                                let (x1, x2, y1, y2) = (ax[i], ax[i + 1], data[[i, j]], data[[i + 1, j]]);
                                let want = (y2 - y1) / (x2 - x1) * (q - x1) + y1;
                                let tol = 64.0 * f64::EPSILON * (y1.abs().max(y2.abs()).max(want.abs()) + 1e-300);
                                if !want.is_finite() || !tol.is_finite() || q.abs() > 1e150 { continue; }   // overflow of the exact value: outside the property
                                if !((got[j] - want).abs() <= tol) {
                                    return out(true, unit, format!("axis={ax:?} data column {j}={:?} extrapolate={extrap} query={q:e}", data.column(j).to_vec()), format!("{want:e} (line through ({x1},{y1}) and ({x2},{y2}))"), format!("{:e}", got[j]));
                                }
                            }
                        }
                    }
                }
            }
            // extreme magnitudes: axis and data scaled by the same power of two (exact, so the expected value is the scaled
            // small-magnitude result); an intermediate that has the unit data*axis overflows / underflows here
            for e in [540i32, -540, 400, -480] {
                let sc = 2f64.powi(e);
                let ax0 = [0.0f64, 1.0, 2.5, 3.0, 4.75];
                let d0 = [1.0f64, 3.5, -2.0, 0.5, 4.0];
                let ax: Vec<f64> = ax0.iter().map(|v| v * sc).collect();
                let d: Vec<f64> = d0.iter().map(|v| v * sc).collect();
                let it = Interp1DBuilder::new(Array1::from(d.clone())).x(Array1::from(ax.clone())).strategy(Linear::new().extrapolate(true)).build().unwrap();
                let it0 = Interp1DBuilder::new(Array1::from(d0.to_vec())).x(Array1::from(ax0.to_vec())).strategy(Linear::new().extrapolate(true)).build().unwrap();
                for q0 in [0.25f64, 0.75, 1.0, 1.5, 2.25, 2.75, 3.5, 4.5, 5.0, -0.5] {
                    let i = want_index(&ax0.to_vec(), q0);
                    let (x1, x2, y1, y2) = (ax0[i], ax0[i + 1], d0[i], d0[i + 1]);
                    let want0 = (y2 - y1) / (x2 - x1) * (q0 - x1) + y1;
                    let want = want0 * sc;
                    let got = match catch_unwind(AssertUnwindSafe(|| it.interp_scalar(q0 * sc))) { Ok(Ok(g)) => g, other => return out(true, unit, format!("axis and data scaled by 2^{e}, query={:e}", q0 * sc), format!("{want:e}"), format!("{other:?}")) };
                    let _ = &it0;
                    if !((got - want).abs() <= 64.0 * f64::EPSILON * (y1.abs().max(y2.abs()).max(want0.abs())) * sc) {
                        return out(true, unit, format!("axis {ax0:?} and data {d0:?} both scaled by 2^{e}, query={:e}", q0 * sc), format!("{want:e}"), format!("{got:e}"));
                    }
                }
            }
            out(false, unit, String::new(), String::new(), String::new())
        }
        "Linear::integer-affine" => {
            // C16 for integer element types: data sampled from a + b*x with integer b is reproduced exactly between the knots
            for (a, b) in [(3i64, 2i64), (-7, 5), (0, -3), (11, 1)] {
                for ax in [vec![0i64, 2, 4, 10], vec![-6, -3, 0, 9, 12], vec![1, 5, 6, 8]] {
                    let n = ax.len();
                    let d64 = Array1::from(ax.iter().map(|x| a + b * x).collect::<Vec<_>>());
                    let it64 = Interp1DBuilder::new(d64).x(Array1::from(ax.clone())).strategy(Linear::new().extrapolate(true)).build().unwrap();
                    let d32 = Array1::from(ax.iter().map(|x| (a + b * x) as i32).collect::<Vec<_>>());
                    let it32 = Interp1DBuilder::new(d32).x(Array1::from(ax.iter().map(|x| *x as i32).collect::<Vec<_>>())).strategy(Linear::new().extrapolate(true)).build().unwrap();
                    for q in ax[0] - 2..=ax[n - 1] + 2 {
                        let want = a + b * q;
                        match catch_unwind(AssertUnwindSafe(|| it64.interp_scalar(q))) {
                            Ok(Ok(g)) if g == want => {}
                            other => return out(true, unit, format!("i64 axis={ax:?} data={a}+{b}*x query={q}"), format!("{want}"), format!("{other:?}")),
                        }
                        match catch_unwind(AssertUnwindSafe(|| it32.interp_scalar(q as i32))) {
                            Ok(Ok(g)) if g as i64 == want => {}
                            other => return out(true, unit, format!("i32 axis={ax:?} data={a}+{b}*x query={q}"), format!("{want}"), format!("{other:?}")),
                        }
                    }
                }
            }
            // large i32 values: slope 1 on an axis scaled by 2^20 (a product of differences would overflow i32)
            {
                let n = 64usize;
                let ax: Vec<i32> = (0..n as i32).map(|i| i << 20).collect();
                let d: Vec<i32> = ax.iter().map(|x| 3 * x + 7).collect();
                let it = Interp1DBuilder::new(Array1::from(d)).x(Array1::from(ax.clone())).strategy(Linear::new()).build().unwrap();
                for i in 0..n - 1 { for off in [0i32, 2, 1 << 10, (1 << 20) - 2] {
                    let q = ax[i] + off;
                    let want = 3 * q + 7;
                    match catch_unwind(AssertUnwindSafe(|| it.interp_scalar(q))) {
                        Ok(Ok(g)) if g == want => {}
                        other => return out(true, unit, format!("i32 axis 0,2^20,..,63*2^20 data=3x+7 query={q}"), format!("{want}"), format!("{other:?}")),
                    }
                } }
            }
            // bilinear a + b*x + c*y + d*x*y on integer grids
            let (ax, ay) = (vec![0i64, 2, 6], vec![-3i64, 0, 4, 5]);
            for (a, b, c, d) in [(1i64, 2i64, 3i64, 1i64), (0, -1, 4, 2)] {
                let z = Array2::from_shape_fn((ax.len(), ay.len()), |(i, k)| a + b * ax[i] + c * ay[k] + d * ax[i] * ay[k]);
                let it = Interp2DBuilder::new(z).x(Array1::from(ax.clone())).y(Array1::from(ay.clone())).strategy(Bilinear::new()).build().unwrap();
                for qx in ax[0]..=ax[2] { for qy in ay[0]..=ay[3] {
                    let want = a + b * qx + c * qy + d * qx * qy;
                    match catch_unwind(AssertUnwindSafe(|| it.interp_scalar(qx, qy))) {
                        Ok(Ok(g)) if g == want => {}
                        other => return out(true, unit, format!("i64 grid x={ax:?} y={ay:?} bilinear data query=({qx},{qy})"), format!("{want}"), format!("{other:?}")),
                    }
                } }
            }
            out(false, unit, String::new(), String::new(), String::new())
        }
        "Bilinear::interp_into" | "Interp2D::index_point" | "Interp2D::is_in_x_range" | "Interp2D::is_in_y_range" => {
            WITH_NAN.with(|w| w.set(true));
            let axs = axes();
            for (ai, ax) in axs.iter().enumerate().take(8) {
                let ay = &axs[(ai + 3) % 8];
                let (nx, ny) = (ax.len(), ay.len());
                let data = Array2::from_shape_fn((nx, ny), |(i, k)| ((i * 13 + k * 7) % 17) as f64 * 0.5 - 3.0 + (i * i) as f64 * 0.125);
                for extrap in [false, true] {
                    let it = Interp2DBuilder::new(data.clone()).x(Array1::from(ax.clone())).y(Array1::from(ay.clone())).strategy(Bilinear::new().extrapolate(extrap)).build().unwrap();
                    for &qx in queries(ax).iter().step_by(3) { for &qy in queries(ay).iter().step_by(2) {
                        if !qx.is_finite() || !qy.is_finite() { if extrap { continue; } }
                        if (qx.is_nan() || qy.is_nan()) && extrap { continue; }
                        let inr = ax[0] <= qx && qx <= ax[nx - 1] && ay[0] <= qy && qy <= ay[ny - 1];
                        let r = catch_unwind(AssertUnwindSafe(|| it.interp_scalar(qx, qy)));
                        let r = match r { Ok(r) => r, Err(_) => return out(true, unit, format!("x={ax:?} y={ay:?} query=({qx:e},{qy:e}) extrapolate={extrap}"), "no panic".into(), "panic".into()) };
                        if !extrap && !inr { if r.is_ok() { return out(true, unit, format!("x={ax:?} y={ay:?} query=({qx:e},{qy:e})"), "Err(OutOfBounds)".into(), format!("{r:?}")); } continue; }
                        let got = match r { Ok(g) => g, Err(e) => return out(true, unit, format!("x={ax:?} y={ay:?} query=({qx:e},{qy:e}) extrapolate={extrap}"), "Ok".into(), format!("Err({e})")) };
                        let (i, k) = (want_index(ax, qx), want_index(ay, qy));
                        let (x1, x2, y1, y2) = (ax[i], ax[i + 1], ay[k], ay[k + 1]);
                        let (z11, z12, z21, z22) = (data[[i, k]], data[[i, k + 1]], data[[i + 1, k]], data[[i + 1, k + 1]]);
                        let want = (z11 * (x2 - qx) * (y2 - qy) + z21 * (qx - x1) * (y2 - qy) + z12 * (x2 - qx) * (qy - y1) + z22 * (qx - x1) * (qy - y1)) / ((x2 - x1) * (y2 - y1));
                        let scale = z11.abs().max(z12.abs()).max(z21.abs()).max(z22.abs()).max(want.abs()) * (1.0 + ((qx - x1) / (x2 - x1)).abs()) * (1.0 + ((qy - y1) / (y2 - y1)).abs());
                        if !want.is_finite() || !scale.is_finite() || qx.abs() > 1e150 || qy.abs() > 1e150 { continue; }
                        if !((got - want).abs() <= 256.0 * f64::EPSILON * (scale + 1e-300)) {
                            return out(true, unit, format!("x={ax:?} y={ay:?} data={:?} query=({qx:e},{qy:e}) extrapolate={extrap}", data), format!("{want:e} (bilinear blend of the cell ({i},{k}))"), format!("{got:e}"));
                        }
                    } }
                }
            }
            out(false, unit, String::new(), String::new(), String::new())
        }
        "CubicSplineStrategy::interp_into" => {
            // oracle: the spline passes through its data, is C1/C2 at the interior knots (finite differences on exact dyadic grids),
            // honours the range guard, and is periodic when built periodic
            for ax in axes().into_iter().filter(|a| a.len() >= 3).take(7) {
                let n = ax.len();
                let data = Array1::from_shape_fn(n, |i| ((i * 7) % 11) as f64 * 0.5 - 2.0);
                for (bname, bc) in [("NotAKnot", BoundaryCondition::NotAKnot), ("Natural", BoundaryCondition::Natural), ("Clamped", BoundaryCondition::Clamped)] {
                    let it = Interp1DBuilder::new(data.clone()).x(Array1::from(ax.clone())).strategy(CubicSpline::new().boundary(bc).extrapolate(false)).build().unwrap();
                    for i in 0..n {
                        let got = it.interp_scalar(ax[i]);
                        match got {
                            Ok(g) if (g - data[i]).abs() <= 1e-9 * (1.0 + data[i].abs()) => {}
                            other => return out(true, unit, format!("axis={ax:?} data={:?} boundary={bname} query=knot {i} ({})", data.to_vec(), ax[i]), format!("{}", data[i]), format!("{other:?}")),
                        }
                    }
                    for i in 1..n - 1 {
                        let h = (ax[i] - ax[i - 1]).min(ax[i + 1] - ax[i]) * 1e-4;
                        let f = |q: f64| it.interp_scalar(q).unwrap();
                        let dl = (f(ax[i]) - f(ax[i] - h)) / h;
                        let dr = (f(ax[i] + h) - f(ax[i])) / h;
                        let scale = 1.0 + dl.abs().max(dr.abs());
                        // one-sided slopes differ by O(h*S''): compare against the second difference instead
                        let d2l = (f(ax[i]) - 2.0 * f(ax[i] - h) + f(ax[i] - 2.0 * h)) / (h * h);
                        let d2r = (f(ax[i] + 2.0 * h) - 2.0 * f(ax[i] + h) + f(ax[i])) / (h * h);
                        if (dl - dr).abs() > 4.0 * h * (d2l.abs().max(d2r.abs()) + 1.0) + 1e-6 * scale {
                            return out(true, unit, format!("axis={ax:?} data={:?} boundary={bname} knot {i}", data.to_vec()), format!("continuous first derivative (left slope {dl})"), format!("right slope {dr}"));
                        }
                    }
                    let up = |v: f64| if v > 0.0 { f64::from_bits(v.to_bits() + 1) } else if v < 0.0 { f64::from_bits(v.to_bits() - 1) } else { f64::MIN_POSITIVE };
                    let down = |v: f64| if v > 0.0 { f64::from_bits(v.to_bits() - 1) } else if v < 0.0 { f64::from_bits(v.to_bits() + 1) } else { -f64::MIN_POSITIVE };
                    for q in [ax[0], ax[n - 1]] {
                        if it.interp_scalar(q).is_err() { return out(true, unit, format!("axis={ax:?} boundary={bname} query=range end {q:e}"), "Ok".into(), "Err".into()); }
                    }
                    for q in [ax[0] - 0.5, ax[n - 1] + 0.5, f64::NAN, f64::INFINITY, f64::NEG_INFINITY, up(ax[n - 1]), down(ax[0])] {
                        if it.interp_scalar(q).is_ok() { return out(true, unit, format!("axis={ax:?} boundary={bname} query={q}"), "Err(OutOfBounds)".into(), "Ok".into()); }
                    }
                }
                let mut pd = data.clone(); pd[n - 1] = pd[0];
                let it = Interp1DBuilder::new(pd.clone()).x(Array1::from(ax.clone())).strategy(CubicSpline::new().boundary(BoundaryCondition::Periodic).extrapolate(true)).build().unwrap();
                let p = ax[n - 1] - ax[0];
                for i in 0..n - 1 { for k in [-3.0f64, -1.0, 1.0, 2.0, 1000.0] {
                    let q = ax[i] + (ax[i + 1] - ax[i]) * 0.3125;
                    let (a, b) = (it.interp_scalar(q).unwrap(), it.interp_scalar(q + k * p));
                    match b { Ok(b) if (a - b).abs() <= 1e-6 * (1.0 + a.abs()) * k.abs() => {}
                        other => return out(true, unit, format!("periodic spline axis={ax:?} data={:?} query={q} + {k}*{p}", pd.to_vec()), format!("{a}"), format!("{other:?}")) }
                } }
            }
            out(false, unit, String::new(), String::new(), String::new())
        }
        "CubicSpline::large-cubic" => {
            // C16 / C02 / C03 far beyond the exhaustive shapes: data sampled from a different cubic per lane on a non-uniform axis is
            // reproduced at every query of every piece (NotAKnot; FirstDeriv / SecondDeriv end values taken from the cubic), for
            // long axes (block sizes 32 / 64 with and without remainders) and many lanes (more than 64, no multiple of 8)
            for (n, shape) in [(33usize, vec![1usize]), (34, vec![3]), (40, vec![2]), (65, vec![1]), (70, vec![2]), (97, vec![1]), (130, vec![1]), (8, vec![77]), (7, vec![7, 11]), (5, vec![70]), (36, vec![66])] {
                let lanes: usize = shape.iter().product();
                let gaps = [0.5f64, 1.25, 0.75, 2.0, 1.0, 0.25, 1.5];
                let mut ax = vec![-3.0f64];
                for i in 0..n - 1 { let l = *ax.last().unwrap(); ax.push(l + gaps[(i * 5 + n) % gaps.len()]); }
                let span = ax[n - 1] - ax[0];
                // coefficients scaled so that the values stay O(1) over the whole axis
                let coef = |j: usize| -> [f64; 4] { let j = j as f64; [1.0 + 0.25 * j, (0.5 - 0.125 * j) / span, (0.75 + 0.0625 * j) / (span * span), (-1.0 + 0.03125 * j) / (span * span * span)] };
                let p = |c: &[f64; 4], t: f64| { let u = t - ax[0]; c[0] + u * (c[1] + u * (c[2] + u * c[3])) };
                let dp = |c: &[f64; 4], t: f64| { let u = t - ax[0]; c[1] + u * (2.0 * c[2] + u * 3.0 * c[3]) };
                let ddp = |c: &[f64; 4], t: f64| { let u = t - ax[0]; 2.0 * c[2] + 6.0 * c[3] * u };
                let mut full = vec![n]; full.extend(shape.iter().copied());
                let flat: Vec<f64> = (0..n).flat_map(|i| (0..lanes).map(move |j| (i, j))).map(|(i, j)| p(&coef(j), ax[i])).collect();
                let data = ndarray::ArrayD::from_shape_vec(ndarray::IxDyn(&full), flat).unwrap();
                let mut bshape = vec![1usize]; bshape.extend(shape.iter().copied());
                let rows: Vec<RowBoundary<f64>> = (0..lanes).map(|j| RowBoundary::Mixed { left: SingleBoundary::FirstDeriv(dp(&coef(j), ax[0])), right: SingleBoundary::SecondDeriv(ddp(&coef(j), ax[n - 1])) }).collect();
                let barr = ndarray::ArrayD::from_shape_vec(ndarray::IxDyn(&bshape), rows).unwrap();
                for (bname, bc) in [("NotAKnot", BoundaryCondition::NotAKnot), ("Individual(FirstDeriv, SecondDeriv of the cubic)", BoundaryCondition::Individual(barr))] {
                    let it = match catch_unwind(AssertUnwindSafe(|| Interp1DBuilder::new(data.clone()).x(Array1::from(ax.clone())).strategy(CubicSpline::new().boundary(bc).extrapolate(true)).build())) {
                        Ok(Ok(it)) => it,
                        other => return out(true, unit, format!("n={n} trailing shape {shape:?} boundary={bname}"), "Ok(interpolator)".into(), format!("{:?}", other.map(|r| r.map(|_| "interpolator").map_err(|e| e.to_string())))),
                    };
                    let mut qs: Vec<f64> = Vec::new();
                    for i in 0..n - 1 { for f in [0.25f64, 0.8125] { qs.push(ax[i] + (ax[i + 1] - ax[i]) * f); } }
                    qs.push(ax[0] - 0.375); qs.push(ax[n - 1] + 0.625);
                    for q in qs {
                        let r = match catch_unwind(AssertUnwindSafe(|| it.interp(q))) { Ok(Ok(r)) => r, other => return out(true, unit, format!("n={n} trailing shape {shape:?} boundary={bname} query={q}"), "Ok".into(), format!("{:?}", other.map(|r| r.map(|a| a.len()).map_err(|e| e.to_string())))) };
                        for (j, g) in r.iter().enumerate() {
                            let want = p(&coef(j), q);
                            if !((g - want).abs() <= 1e-8 * (1.0 + want.abs())) {
                                return out(true, unit, format!("cubic sampled at n={n} non-uniform knots from {} to {}, trailing shape {shape:?} (lane {j} of {lanes}), boundary={bname}, query={q}", ax[0], ax[n - 1]), format!("{want} (the cubic itself)"), format!("{g}"));
                            }
                        }
                    }
                }
            }
            out(false, unit, String::new(), String::new(), String::new())
        }
        _ => out(false, unit, "no probe for this unit".into(), String::new(), String::new()),
    }
}
