//! entry-point / layout / plumbing scenarios (filled in below)
pub fn dispatch(cmd: &str, _args: &[String], _line: &str) {
    eprintln!("unknown scenario command {cmd}");
}
