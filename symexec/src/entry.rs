//! entry-point / layout / buffer / custom-strategy scenarios: relational facts decided by node identity
//! ("same node" = same operation sequence on the same operands = bit-identical for every input value).
#![allow(clippy::too_many_arguments)]
use std::cell::{Cell, RefCell};
use std::panic::{catch_unwind, AssertUnwindSafe};

use ndarray::{
    Array, Array1, ArrayBase, ArrayD, ArrayViewMut, Axis, Data, Dimension, Ix0, Ix1, Ix2, Ix3, Ix4, Ix5, IxDyn, OwnedRepr, RemoveAxis, ShapeBuilder, Slice,
};
use ndarray_interp::interp1d::cubic_spline::CubicSpline;
use ndarray_interp::interp1d::{Interp1D, Interp1DBuilder, Interp1DStrategy, Interp1DStrategyBuilder, Linear};
use ndarray_interp::interp2d::{Bilinear, Interp2D, Interp2DBuilder, Interp2DStrategy, Interp2DStrategyBuilder};
use ndarray_interp::{BuilderError, InterpolateError};

use crate::sym::*;
use crate::{axis, json_escape};

pub struct Check { pub name: String, pub ok: bool, pub detail: String }
fn ck(v: &mut Vec<Check>, name: String, ok: bool, detail: String) { v.push(Check { name, ok, detail }); }

fn emit(scn: &str, result: &str, checks: &[Check]) {
    let mut s = format!("{{\"scenario\":\"{}\",\"result\":\"{}\",\"checks\":[", json_escape(scn), json_escape(result));
    for (i, c) in checks.iter().enumerate() {
        if i > 0 { s.push(','); }
        s.push_str(&format!("{{\"name\":\"{}\",\"ok\":{},\"detail\":\"{}\"}}", json_escape(&c.name), c.ok, json_escape(&c.detail)));
    }
    s.push_str("]}");
    println!("{}", s);
}

pub fn sym_array(prefix: &str, shape: &[usize], lo: f64, hi: f64) -> ArrayD<Sym> {
    let total: usize = shape.iter().product();
    let v: Vec<Sym> = (0..total).map(|i| var(&format!("{prefix}{i}"), lo + (hi - lo) * (((i * 37 + 11) % 97) as f64 / 97.0))).collect();
    ArrayD::from_shape_vec(IxDyn(shape), v).unwrap()
}
fn ids<D: Dimension>(a: &Array<Sym, D>) -> Vec<u32> { a.iter().map(|s| s.0).collect() }
fn ids_v<S: Data<Elem = Sym>, D: Dimension>(a: &ArrayBase<S, D>) -> Vec<u32> { a.iter().map(|s| s.0).collect() }

// ------------------------------------------------------------------------------------------------
// recording / failing custom strategies
// ------------------------------------------------------------------------------------------------
thread_local! {
    pub static LOG: RefCell<Vec<(u32, u32, Vec<usize>)>> = RefCell::new(Vec::new());   // (x node, y node, target shape)
    pub static BUILD_LOG: RefCell<Vec<String>> = RefCell::new(Vec::new());
    pub static FAIL_AT: Cell<Option<usize>> = Cell::new(None);
    pub static FAIL_BUILD: Cell<bool> = Cell::new(false);
    pub static CALLS: Cell<usize> = Cell::new(0);
}
pub struct Rec<const MIN: usize>;

fn axis_ok<S: Data<Elem = Sym>>(x: &ArrayBase<S, Ix1>) -> bool {
    x.len() >= 2 && x.iter().zip(x.iter().skip(1)).all(|(a, b)| shadow(*a) < shadow(*b))
}
impl<Sd, Sx, D, const MIN: usize> Interp1DStrategyBuilder<Sd, Sx, D> for Rec<MIN>
where Sd: Data<Elem = Sym>, Sx: Data<Elem = Sym>, D: Dimension + RemoveAxis {
    const MINIMUM_DATA_LENGHT: usize = MIN;
    type FinishedStrat = Rec<MIN>;
    fn build<Sx2>(self, x: &ArrayBase<Sx2, Ix1>, data: &ArrayBase<Sd, D>) -> Result<Rec<MIN>, BuilderError> where Sx2: Data<Elem = Sym> {
        let ok = data.ndim() >= 1 && x.len() == data.shape()[0] && data.shape()[0] >= MIN && axis_ok(x);
        BUILD_LOG.with(|l| l.borrow_mut().push(format!("build1d guarantees_hold={ok} xlen={} shape={:?} min={MIN}", x.len(), data.shape())));
        if FAIL_BUILD.with(|f| f.get()) { return Err(BuilderError::ValueError("injected-build-error".into())); }
        Ok(self)
    }
}
impl<Sd, Sx, D, const MIN: usize> Interp1DStrategy<Sd, Sx, D> for Rec<MIN>
where Sd: Data<Elem = Sym>, Sx: Data<Elem = Sym>, D: Dimension + RemoveAxis {
    fn interp_into(&self, _i: &Interp1D<Sd, Sx, D, Self>, mut target: ArrayViewMut<'_, Sym, D::Smaller>, x: Sym) -> Result<(), InterpolateError> {
        let k = CALLS.with(|c| { let k = c.get(); c.set(k + 1); k });
        LOG.with(|l| l.borrow_mut().push((x.0, u32::MAX, target.shape().to_vec())));
        if FAIL_AT.with(|f| f.get()) == Some(k) { return Err(InterpolateError::OutOfBounds(format!("injected-{k}"))); }
        for (l, t) in target.iter_mut().enumerate() { *t = x + konst_frac(l as i128, 1); }
        Ok(())
    }
}
impl<Sd, Sx, Sy, D, const MIN: usize> Interp2DStrategyBuilder<Sd, Sx, Sy, D> for Rec<MIN>
where Sd: Data<Elem = Sym>, Sx: Data<Elem = Sym>, Sy: Data<Elem = Sym>, D: Dimension + RemoveAxis, D::Smaller: RemoveAxis {
    const MINIMUM_DATA_LENGHT: usize = MIN;
    type FinishedStrat = Rec<MIN>;
    fn build(self, x: &ArrayBase<Sx, Ix1>, y: &ArrayBase<Sy, Ix1>, data: &ArrayBase<Sd, D>) -> Result<Rec<MIN>, BuilderError> {
        let ok = data.ndim() >= 2 && x.len() == data.shape()[0] && y.len() == data.shape()[1] && data.shape()[0] >= MIN && data.shape()[1] >= MIN && axis_ok(x) && axis_ok(y);
        BUILD_LOG.with(|l| l.borrow_mut().push(format!("build2d guarantees_hold={ok} xlen={} ylen={} shape={:?} min={MIN}", x.len(), y.len(), data.shape())));
        if FAIL_BUILD.with(|f| f.get()) { return Err(BuilderError::ValueError("injected-build-error".into())); }
        Ok(self)
    }
}
impl<Sd, Sx, Sy, D, const MIN: usize> Interp2DStrategy<Sd, Sx, Sy, D> for Rec<MIN>
where Sd: Data<Elem = Sym>, Sx: Data<Elem = Sym>, Sy: Data<Elem = Sym>, D: Dimension + RemoveAxis, D::Smaller: RemoveAxis {
    fn interp_into(&self, _i: &Interp2D<Sd, Sx, Sy, D, Self>, mut target: ArrayViewMut<'_, Sym, <D::Smaller as Dimension>::Smaller>, x: Sym, y: Sym) -> Result<(), InterpolateError> {
        let k = CALLS.with(|c| { let k = c.get(); c.set(k + 1); k });
        LOG.with(|l| l.borrow_mut().push((x.0, y.0, target.shape().to_vec())));
        if FAIL_AT.with(|f| f.get()) == Some(k) { return Err(InterpolateError::OutOfBounds(format!("injected-{k}"))); }
        for (l, t) in target.iter_mut().enumerate() { *t = x * y + konst_frac(l as i128, 1); }
        Ok(())
    }
}
fn reset_logs() { LOG.with(|l| l.borrow_mut().clear()); CALLS.with(|c| c.set(0)); FAIL_AT.with(|f| f.set(None)); FAIL_BUILD.with(|f| f.set(false)); BUILD_LOG.with(|l| l.borrow_mut().clear()); }

/// layout variants of an array with identical logical contents: C order, F order, every-2nd slice of a
/// larger array, reversed last axis (stored reversed, viewed reversed back)
fn variants<D: Dimension>(a: &Array<Sym, D>) -> Vec<(&'static str, Array<Sym, D>, Option<Array<Sym, D>>)> {
    // returns owned arrays; the strided / reversed variants are produced as views by the caller through `with_view`
    let mut out = vec![("c-order", a.clone(), None)];
    let mut f = Array::from_elem(a.raw_dim().f(), konst_frac(0, 1));
    f.assign(a);
    out.push(("f-order", f, None));
    out
}

/// run `body` with a strided view (every 2nd element along every axis of a larger array) holding `a`'s contents
pub fn strided_holder<D: Dimension>(a: &Array<Sym, D>, poison: Sym) -> Array<Sym, D> {
    let mut big_dim = a.raw_dim();
    for ax in 0..a.ndim() { big_dim[ax] = a.shape()[ax] * 2 + 1; }
    let mut big = Array::from_elem(big_dim, poison);
    {
        let mut v = big.view_mut();
        for ax in 0..a.ndim() { v.slice_axis_inplace(Axis(ax), Slice::new(1, None, 2)); }
        // v now has shape >= a.shape() (len*2+1 -> starting at 1 step 2 => len)
        v.assign(a);
    }
    big
}
pub fn strided_view_mut<'a, D: Dimension>(big: &'a mut Array<Sym, D>) -> ArrayViewMut<'a, Sym, D> {
    let mut v = big.view_mut();
    for ax in 0..v.ndim() { v.slice_axis_inplace(Axis(ax), Slice::new(1, None, 2)); }
    v
}
pub fn reversed_holder<D: Dimension>(a: &Array<Sym, D>) -> Array<Sym, D> {
    let mut r = a.clone();
    for ax in 0..a.ndim() { r.invert_axis(Axis(ax)); }
    // r is a reversed VIEW-like owned array (negative strides) with reversed logical contents; make it standard, then invert again:
    let mut std = Array::from_elem(a.raw_dim(), konst_frac(0, 1));
    std.assign(&r);                 // std (standard layout) holds the reversed contents
    for ax in 0..a.ndim() { std.invert_axis(Axis(ax)); } // logical contents == a, strides negative
    std
}

macro_rules! entry1d_case {
    ($fname:ident, $D:ty, $Dq:ty, $B:ty) => {
        pub fn $fname<SB>(tag: &str, dshape: &[usize], qshape: &[usize], mk_strat: &dyn Fn() -> SB, builtin: bool, checks: &mut Vec<Check>)
        where SB: Interp1DStrategyBuilder<OwnedRepr<Sym>, OwnedRepr<Sym>, $D>,
        {
            let n = dshape[0];
            let x = axis("x", n, 2);
            let (x0, xn) = (shadow(x[0]), shadow(x[n - 1]));
            let data: Array<Sym, $D> = sym_array("d", dshape, -2.0, 3.0).into_dimensionality::<$D>().unwrap();
            let q: Array<Sym, $Dq> = sym_array("q", qshape, x0 + 0.01, xn - 0.01).into_dimensionality::<$Dq>().unwrap();
            let interp = match Interp1DBuilder::new(data.clone()).x(x.clone()).strategy(mk_strat()).build() {
                Ok(i) => i, Err(e) => { ck(checks, format!("{tag}:build"), false, format!("{e}")); return; }
            };
            let mut want_shape: Vec<usize> = qshape.to_vec();
            want_shape.extend_from_slice(&dshape[1..]);
            let trailing: Vec<usize> = dshape[1..].to_vec();
            let lanes: usize = trailing.iter().product();
            // ---- allocating batch call
            reset_logs();
            let r_arr = match interp.interp_array(&q) { Ok(r) => r, Err(e) => { ck(checks, format!("C09:{tag}:interp_array"), false, format!("{e}")); return; } };
            ck(checks, format!("C09:{tag}:result-shape"), r_arr.shape() == &want_shape[..], format!("got {:?} want {:?}", r_arr.shape(), want_shape));
            let log_batch: Vec<(u32, u32, Vec<usize>)> = LOG.with(|l| l.borrow().clone());
            // ---- element-wise agreement with the single-point entry points
            let flat_arr = ids(&r_arr);
            let mut ok_single = true; let mut ok_into = true; let mut ok_scalar = true; let mut detail = String::new();
            for (k, qv) in q.iter().enumerate() {
                let single = interp.interp(*qv).unwrap();
                let s_ids = ids(&single);
                if s_ids[..] != flat_arr[k * lanes..(k + 1) * lanes] { ok_single = false; detail = format!("query element {k}"); }
                ok_single &= single.shape() == &trailing[..];
                let mut buf = Array::from_elem(single.raw_dim(), konst_frac(7, 1));
                interp.interp_into(*qv, buf.view_mut()).unwrap();
                if ids(&buf) != s_ids { ok_into = false; }
            }
            // single-call `interp_into` with non-standard buffers and wrongly shaped buffers (C13 / C14)
            let knot_q = var("qknot1", shadow(x[1]));
            for (qtag, qv) in q.iter().next().map(|e| ("", e)).into_iter().chain(std::iter::once(("@knot", &knot_q))) {
                let tag = format!("{tag}{qtag}");
                let tag = tag.as_str();
                let single = match interp.interp(*qv) { Ok(s) => s, Err(_) => continue };
                let s_ids = ids(&single);
                if single.ndim() > 0 && !s_ids.is_empty() {
                    let poison = var("POISON", 12345.0);
                    let mut fbuf = Array::from_elem(single.raw_dim().f(), poison);
                    let r = catch_unwind(AssertUnwindSafe(|| interp.interp_into(*qv, fbuf.view_mut())));
                    ck(checks, format!("C13:{tag}:single-into-f-order-buffer"), matches!(r, Ok(Ok(()))) && ids(&fbuf) == s_ids, String::new());
                    let mut rbuf = reversed_holder(&Array::from_elem(single.raw_dim(), poison));
                    let r = catch_unwind(AssertUnwindSafe(|| interp.interp_into(*qv, rbuf.view_mut())));
                    ck(checks, format!("C13:{tag}:single-into-reversed-buffer"), matches!(r, Ok(Ok(()))) && ids(&rbuf) == s_ids, String::new());
                    let mut big = strided_holder(&Array::from_elem(single.raw_dim(), konst_frac(0, 1)), poison);
                    let total_big = big.len();
                    let r = catch_unwind(AssertUnwindSafe(|| interp.interp_into(*qv, strided_view_mut(&mut big))));
                    let okr = matches!(r, Ok(Ok(())));
                    ck(checks, format!("C13:{tag}:single-into-strided-buffer"), okr && ids_v(&strided_view_mut(&mut big)) == s_ids, String::new());
                    ck(checks, format!("C14:{tag}:single-into-outside-window-untouched"), !okr || big.iter().filter(|s| s.0 == poison.0).count() == total_big - s_ids.len(), String::new());
                    if builtin {
                        let want: Vec<usize> = single.shape().to_vec();
                        let mut shapes: Vec<(String, Vec<usize>)> = Vec::new();
                        for ax in 0..want.len() {
                            let mut s2 = want.clone(); s2[ax] += 1; shapes.push((format!("axis{ax}+1"), s2));
                            if want[ax] > 0 { let mut s2 = want.clone(); s2[ax] -= 1; shapes.push((format!("axis{ax}-1"), s2)); }
                        }
                        for a in 0..want.len() { for b in a + 1..want.len() { if want[a] != want[b] { let mut s2 = want.clone(); s2.swap(a, b); shapes.push((format!("swap{a}{b}"), s2)); } } }
                        for (nm, s2) in shapes {
                            if let Ok(mut buf) = ArrayD::from_elem(IxDyn(&s2), poison).into_dimensionality::<<$D as Dimension>::Smaller>() {
                                let r = catch_unwind(AssertUnwindSafe(|| interp.interp_into(*qv, buf.view_mut())));
                                ck(checks, format!("C14:{tag}:single-into-reject[{nm}]"), !matches!(r, Ok(Ok(()))), format!("shape {:?} for required {:?}", s2, want));
                            }
                        }
                    }
                }
            }
            ck(checks, format!("C09:{tag}:array-eq-single"), ok_single, detail);
            ck(checks, format!("C09:{tag}:interp_into-eq-interp"), ok_into, String::new());
            let _ = &mut ok_scalar;
            // ---- *_into writes exactly what the allocating variant returns; memory outside the window untouched (C14)
            let poison = var("POISON", 12345.0);
            let want_dim = r_arr.raw_dim();
            {
                let mut buf: Array<Sym, $B> = Array::from_elem(want_dim.clone(), poison);
                let r = interp.interp_array_into(&q, buf.view_mut());
                ck(checks, format!("C09:{tag}:array_into-eq-alloc"), r.is_ok() && ids(&buf) == flat_arr, String::new());
                ck(checks, format!("C14:{tag}:every-element-overwritten"), !ids(&buf).contains(&poison.0) || flat_arr.is_empty(), String::new());
            }
            if r_arr.ndim() > 0 && !flat_arr.is_empty() {
                // window (every 2nd element) into a larger poisoned array — also a non-contiguous buffer (C13)
                let mut big = strided_holder(&Array::from_elem(want_dim.clone(), konst_frac(0, 1)), poison);
                let total_big = big.len();
                let r = catch_unwind(AssertUnwindSafe(|| interp.interp_array_into(&q, strided_view_mut(&mut big))));
                let okr = matches!(r, Ok(Ok(())));
                let got = ids_v(&strided_view_mut(&mut big));
                ck(checks, format!("C13:{tag}:strided-buffer-accepted"), okr && got == flat_arr, format!("ok={okr}"));
                let poison_left = big.iter().filter(|s| s.0 == poison.0).count();
                ck(checks, format!("C14:{tag}:outside-window-untouched"), !okr || poison_left == total_big - flat_arr.len(), format!("{poison_left} of {}", total_big - flat_arr.len()));
                // buffers that are strided along exactly one axis (every 2nd element of a larger array along that axis only)
                for sax in 0..r_arr.ndim() {
                    let mut big_dim = want_dim.clone();
                    big_dim[sax] = big_dim[sax] * 2 + 1;
                    let mut big1: Array<Sym, $B> = Array::from_elem(big_dim, poison);
                    let r = catch_unwind(AssertUnwindSafe(|| {
                        let mut v = big1.view_mut();
                        v.slice_axis_inplace(Axis(sax), Slice::new(1, None, 2));
                        interp.interp_array_into(&q, v)
                    }));
                    let okr = matches!(r, Ok(Ok(())));
                    let got: Vec<u32> = { let mut v = big1.view_mut(); v.slice_axis_inplace(Axis(sax), Slice::new(1, None, 2)); v.iter().map(|s| s.0).collect() };
                    ck(checks, format!("C13:{tag}:buffer-strided-along-axis{sax}"), okr && got == flat_arr, format!("ok={okr}"));
                    // reversed along that one axis only
                    let mut rb1: Array<Sym, $B> = Array::from_elem(want_dim.clone(), poison);
                    rb1.invert_axis(Axis(sax));
                    let r = catch_unwind(AssertUnwindSafe(|| interp.interp_array_into(&q, rb1.view_mut())));
                    ck(checks, format!("C13:{tag}:buffer-reversed-along-axis{sax}"), matches!(r, Ok(Ok(()))) && ids(&rb1) == flat_arr, String::new());
                }
                // F-order buffer
                let mut fbuf: Array<Sym, $B> = Array::from_elem(want_dim.clone().f(), poison);
                let r = catch_unwind(AssertUnwindSafe(|| interp.interp_array_into(&q, fbuf.view_mut())));
                let okr = matches!(r, Ok(Ok(())));
                ck(checks, format!("C13:{tag}:f-order-buffer-accepted"), okr && ids(&fbuf) == flat_arr, format!("ok={okr}"));
                // reversed-stride buffer
                let mut rbuf = reversed_holder(&Array::from_elem(want_dim.clone(), poison));
                let r = catch_unwind(AssertUnwindSafe(|| interp.interp_array_into(&q, rbuf.view_mut())));
                let okr = matches!(r, Ok(Ok(())));
                ck(checks, format!("C13:{tag}:reversed-buffer-accepted"), okr && ids(&rbuf) == flat_arr, format!("ok={okr}"));
            }
            // ---- query layouts (C13)
            if q.ndim() > 0 && q.len() > 0 {
                for (nm, qv, _) in variants(&q) {
                    let r = catch_unwind(AssertUnwindSafe(|| interp.interp_array(&qv)));
                    let okr = matches!(&r, Ok(Ok(a)) if ids(a) == flat_arr);
                    ck(checks, format!("C13:{tag}:query-{nm}"), okr, String::new());
                }
                let qr = reversed_holder(&q);
                let r = catch_unwind(AssertUnwindSafe(|| interp.interp_array(&qr)));
                ck(checks, format!("C13:{tag}:query-reversed-strides"), matches!(&r, Ok(Ok(a)) if ids(a) == flat_arr), String::new());
                let mut qbig = strided_holder(&q, poison);
                let r = catch_unwind(AssertUnwindSafe(|| { let v = strided_view_mut(&mut qbig); interp.interp_array(&v) }));
                ck(checks, format!("C13:{tag}:query-strided-view"), matches!(&r, Ok(Ok(a)) if ids(a) == flat_arr), String::new());
            }
            // ---- wrongly shaped buffers never produce Ok (C14); built-in strategies (a custom strategy on the Ix1 fast path is itself responsible)
            if r_arr.ndim() > 0 && builtin {
                let mut shapes: Vec<(String, Vec<usize>)> = Vec::new();
                for ax in 0..want_shape.len() {
                    let mut s = want_shape.clone(); s[ax] += 1; shapes.push((format!("axis{ax}+1"), s));
                    if want_shape[ax] > 0 { let mut s = want_shape.clone(); s[ax] -= 1; shapes.push((format!("axis{ax}-1"), s)); }
                }
                for a in 0..want_shape.len() { for b in a + 1..want_shape.len() {
                    if want_shape[a] != want_shape[b] { let mut s = want_shape.clone(); s.swap(a, b); shapes.push((format!("swap{a}{b}"), s)); }
                } }
                for (nm, s) in shapes {
                    if let Ok(mut buf) = ArrayD::from_elem(IxDyn(&s), poison).into_dimensionality::<$B>() {
                        let r = catch_unwind(AssertUnwindSafe(|| interp.interp_array_into(&q, buf.view_mut())));
                        let returned_ok = matches!(r, Ok(Ok(())));
                        ck(checks, format!("C14:{tag}:reject[{nm}]"), !returned_ok || q.len() == 0 && false, format!("shape {:?} for required {:?} -> {}", s, want_shape, if returned_ok { "Ok" } else { "rejected" }));
                    }
                }
            }
            // ---- custom strategy sees the unmodified queries in logical order and correctly shaped targets (C18)
            if !builtin {
                let qids: Vec<u32> = q.iter().map(|s| s.0).collect();
                let seen: Vec<u32> = log_batch.iter().map(|e| e.0).collect();
                ck(checks, format!("C18:{tag}:queries-unmodified-in-order"), seen == qids, format!("{} calls for {} queries", seen.len(), qids.len()));
                ck(checks, format!("C18:{tag}:target-shape"), log_batch.iter().all(|e| e.2 == trailing), String::new());
                // failure injected at every call index reaches the caller unchanged; earlier elements are not an excuse to continue
                for k in 0..q.len() {
                    reset_logs();
                    FAIL_AT.with(|f| f.set(Some(k)));
                    let r = interp.interp_array(&q);
                    let calls = CALLS.with(|c| c.get());
                    let okr = matches!(&r, Err(InterpolateError::OutOfBounds(m)) if m == &format!("injected-{k}"));
                    ck(checks, format!("C18:{tag}:error-passthrough[call={k}]"), okr && calls == k + 1, format!("calls={calls}"));
                }
                reset_logs();
                if let Some(qv) = q.iter().next() {
                    FAIL_AT.with(|f| f.set(Some(0)));
                    let r = interp.interp(*qv);
                    ck(checks, format!("C18:{tag}:error-passthrough[interp]"), matches!(&r, Err(InterpolateError::OutOfBounds(m)) if m == "injected-0"), String::new());
                    reset_logs();
                }
            }
            // ---- an out-of-range element at any position fails the batch as a whole (C05)
            if builtin && !tag.contains("extrap") {
                for k in 0..q.len() {
                    let mut q2 = q.clone();
                    let bad = if k % 2 == 0 { var("qbad_hi", xn + 1.0) } else { var("qbad_lo", x0 - 1.0) };
                    *q2.iter_mut().nth(k).unwrap() = bad;
                    let r = interp.interp_array(&q2);
                    ck(checks, format!("C05:{tag}:batch-error[pos={k}]"), matches!(r, Err(InterpolateError::OutOfBounds(_))), String::new());
                    // entry points agree on rejection as well: the batch fails iff one of the single calls fails
                    let any_single_err = q2.iter().any(|e| interp.interp(*e).is_err());
                    ck(checks, format!("C09:{tag}:error-agreement[pos={k}]"), r.is_err() == any_single_err, format!("batch err={} single err={}", r.is_err(), any_single_err));
                }
                let mut q3 = q.clone();
                if let Some(e) = q3.iter_mut().next() { *e = var("qnan", f64::NAN); let r = interp.interp_array(&q3); ck(checks, format!("C05:{tag}:batch-error[NaN]"), r.is_err(), String::new()); }
            }
            if builtin {
                // answers do not depend on history (C17): replay in reverse order, after failed and rejected calls
                let _ = interp.interp(var("qbad_hi", xn + 1.0));
                let mut rev_ok = true;
                let qv: Vec<Sym> = q.iter().copied().collect();
                for (k, e) in qv.iter().enumerate().rev() {
                    let s = interp.interp(*e).unwrap();
                    rev_ok &= ids(&s)[..] == flat_arr[k * lanes..(k + 1) * lanes];
                }
                let again = interp.interp_array(&q).unwrap();
                ck(checks, format!("C17:{tag}:history-independent"), rev_ok && ids(&again) == flat_arr, String::new());
            }
        }
    };
}

entry1d_case!(e1_d1_q1, Ix1, Ix1, Ix1);
entry1d_case!(e1_d2_q1, Ix2, Ix1, Ix2);
entry1d_case!(e1_d3_q1, Ix3, Ix1, Ix3);
entry1d_case!(e1_d4_q1, Ix4, Ix1, Ix4);
entry1d_case!(e1_d5_q1, Ix5, Ix1, Ix5);
entry1d_case!(e1_d1_q0, Ix1, Ix0, Ix0);
entry1d_case!(e1_d2_q0, Ix2, Ix0, Ix1);
entry1d_case!(e1_d1_q2, Ix1, Ix2, Ix2);
entry1d_case!(e1_d2_q2, Ix2, Ix2, Ix3);
entry1d_case!(e1_d3_q2, Ix3, Ix2, Ix4);
entry1d_case!(e1_d2_q3, Ix2, Ix3, Ix4);
entry1d_case!(e1_d1_q3, Ix1, Ix3, Ix3);
entry1d_case!(e1_d4_q4, Ix4, Ix4, IxDyn);
entry1d_case!(e1_dd_q1, IxDyn, Ix1, IxDyn);
entry1d_case!(e1_dd_q2, IxDyn, Ix2, IxDyn);
entry1d_case!(e1_dd_qd, IxDyn, IxDyn, IxDyn);
entry1d_case!(e1_d1_qd, Ix1, IxDyn, IxDyn);
entry1d_case!(e1_d2_qd, Ix2, IxDyn, IxDyn);
entry1d_case!(e1_d3_qd, Ix3, IxDyn, IxDyn);

fn shape_arg(args: &[String], key: &str) -> Vec<usize> {
    for a in args { if let Some(v) = a.strip_prefix(&format!("{key}=")) { return v.split('x').filter(|s| !s.is_empty()).map(|s| s.parse().unwrap()).collect(); } }
    vec![]
}
fn str_arg<'a>(args: &'a [String], key: &str, d: &'a str) -> &'a str {
    for a in args { if let Some(v) = a.strip_prefix(&format!("{key}=")) { return v; } }
    d
}

macro_rules! run_strats {
    ($f:ident, $D:ty, $tag:expr, $ds:expr, $qs:expr, $strat:expr, $checks:expr) => {
        match $strat {
            "linear" => $f($tag, $ds, $qs, &|| Linear::new(), true, $checks),
            "linear-extrap" => $f($tag, $ds, $qs, &|| Linear::new().extrapolate(true), true, $checks),
            "spline" => $f($tag, $ds, $qs, &|| CubicSpline::<Sym, $D>::new(), true, $checks),
            "record" => $f($tag, $ds, $qs, &|| Rec::<2>, false, $checks),
            other => panic!("unknown strategy {other}"),
        }
    };
}

pub fn dispatch(cmd: &str, args: &[String], line: &str) {
    reset();
    reset_logs();
    let mut checks: Vec<Check> = Vec::new();
    let result = catch_unwind(AssertUnwindSafe(|| {
        match cmd {
            "entry1d" => {
                let ds = shape_arg(args, "data");
                let qs = shape_arg(args, "q");
                let dd = str_arg(args, "ddyn", "0") == "1";
                let qd = str_arg(args, "qdyn", "0") == "1";
                let strat = str_arg(args, "strat", "linear");
                let tag = format!("1d[data={}{},q={}{},{}]", str_arg(args, "data", ""), if dd { "dyn" } else { "" }, str_arg(args, "q", "()"), if qd { "dyn" } else { "" }, strat);
                let tag = tag.as_str();
                match (dd, ds.len(), qd, qs.len()) {
                    (false, 1, false, 1) => run_strats!(e1_d1_q1, Ix1, tag, &ds, &qs, strat, &mut checks),
                    (false, 2, false, 1) => run_strats!(e1_d2_q1, Ix2, tag, &ds, &qs, strat, &mut checks),
                    (false, 3, false, 1) => run_strats!(e1_d3_q1, Ix3, tag, &ds, &qs, strat, &mut checks),
                    (false, 4, false, 1) => run_strats!(e1_d4_q1, Ix4, tag, &ds, &qs, strat, &mut checks),
                    (false, 5, false, 1) => run_strats!(e1_d5_q1, Ix5, tag, &ds, &qs, strat, &mut checks),
                    (false, 1, false, 0) => run_strats!(e1_d1_q0, Ix1, tag, &ds, &qs, strat, &mut checks),
                    (false, 2, false, 0) => run_strats!(e1_d2_q0, Ix2, tag, &ds, &qs, strat, &mut checks),
                    (false, 1, false, 2) => run_strats!(e1_d1_q2, Ix1, tag, &ds, &qs, strat, &mut checks),
                    (false, 2, false, 2) => run_strats!(e1_d2_q2, Ix2, tag, &ds, &qs, strat, &mut checks),
                    (false, 3, false, 2) => run_strats!(e1_d3_q2, Ix3, tag, &ds, &qs, strat, &mut checks),
                    (false, 2, false, 3) => run_strats!(e1_d2_q3, Ix2, tag, &ds, &qs, strat, &mut checks),
                    (false, 1, false, 3) => run_strats!(e1_d1_q3, Ix1, tag, &ds, &qs, strat, &mut checks),
                    (false, 4, false, 4) => run_strats!(e1_d4_q4, Ix4, tag, &ds, &qs, strat, &mut checks),
                    (true, _, false, 1) => run_strats!(e1_dd_q1, IxDyn, tag, &ds, &qs, strat, &mut checks),
                    (true, _, false, 2) => run_strats!(e1_dd_q2, IxDyn, tag, &ds, &qs, strat, &mut checks),
                    (true, _, true, _) => run_strats!(e1_dd_qd, IxDyn, tag, &ds, &qs, strat, &mut checks),
                    (false, 1, true, _) => run_strats!(e1_d1_qd, Ix1, tag, &ds, &qs, strat, &mut checks),
                    (false, 2, true, _) => run_strats!(e1_d2_qd, Ix2, tag, &ds, &qs, strat, &mut checks),
                    (false, 3, true, _) => run_strats!(e1_d3_qd, Ix3, tag, &ds, &qs, strat, &mut checks),
                    _ => panic!("no monomorphic case for this rank combination"),
                }
            }
            "fastpath" => crate::entry2::fastpath(args, &mut checks),
            "entry2d" => crate::entry2::entry2d(args, &mut checks),
            "builder" => crate::entry2::builder_table(args, &mut checks),
            "lanes" => crate::entry2::lane_alone(args, &mut checks),
            "layouts" => crate::entry2::layouts(args, &mut checks),
            "scalar" => crate::entry2::scalar(args, &mut checks),
            "flagpair" => crate::entry2::flagpair(args, &mut checks),
            "oracle" => {
                // bounded concrete stand-in: the property's own oracle on the real crate at f64 / i32 / i64
                let unit = str_arg(args, "unit", "");
                let (found, input, expected, observed) = crate::probe::run(unit);
                ck(&mut checks, format!("{}:oracle[{}]", str_arg(args, "prop", "C00"), unit), !found, if found { format!("input {input}: expected {expected}, observed {observed}") } else { String::new() });
            }
            other => panic!("unknown scenario command {other}"),
        }
    }));
    let res = if result.is_ok() { "ok" } else { "panic" };
    emit(line, res, &checks);
}

#[allow(dead_code)]
fn _u(_: Array1<Sym>, _: Ix5, _: Bilinear) { let _ = Interp2DBuilder::new(ndarray::Array2::<f64>::zeros((2, 2))); }
