//! bounded validation of the ASSUMED ndarray contracts of the Verus prelude (contracts/prelude/prelude.rs) on the real ndarray:
//! every `external_body` method of the logical (stride-free) shim is compared with what ndarray does, for every enumerated
//! shape and memory layout. This does not prove the assumptions; it is the bounded stand-in for them.
use std::panic::{catch_unwind, AssertUnwindSafe};

use ndarray::{s, Array, Array1, ArrayD, Axis, Dimension, IxDyn, ShapeBuilder, Zip};

use crate::json_escape;

struct Check { name: String, ok: bool, detail: String }

fn emit(scn: &str, checks: &[Check]) {
    let mut s = format!("{{\"scenario\":\"{}\",\"result\":\"ok\",\"checks\":[", json_escape(scn));
    for (i, c) in checks.iter().enumerate() {
        if i > 0 { s.push(','); }
        s.push_str(&format!("{{\"name\":\"{}\",\"ok\":{},\"detail\":\"{}\"}}", json_escape(&c.name), c.ok, json_escape(&c.detail)));
    }
    s.push_str("]}");
    println!("{}", s);
}

/// rows x lanes logical model of an n-d array interpolated along axis 0
fn rows_of(a: &ArrayD<f64>) -> Vec<Vec<f64>> {
    (0..a.shape()[0]).map(|i| a.index_axis(Axis(0), i).iter().copied().collect()).collect()
}
fn shapes() -> Vec<Vec<usize>> {
    vec![vec![3], vec![1], vec![4, 1], vec![3, 2], vec![5, 2, 3], vec![2, 1, 2, 2], vec![4, 0], vec![6, 3, 1]]
}
fn layouts(sh: &[usize]) -> Vec<(String, ArrayD<f64>)> {
    let total: usize = sh.iter().product();
    let vals: Vec<f64> = (0..total).map(|i| i as f64 * 0.5 - 3.0).collect();
    let c = ArrayD::from_shape_vec(IxDyn(sh), vals.clone()).unwrap();
    let mut out = vec![("c".to_string(), c.clone())];
    let mut f = ArrayD::zeros(IxDyn(sh).f());
    f.assign(&c);
    out.push(("f".to_string(), f));
    if sh.len() >= 2 {
        let mut r = c.clone();
        r.invert_axis(Axis(sh.len() - 1));
        let mut rr = ArrayD::zeros(IxDyn(sh));
        rr.assign(&c);
        rr.invert_axis(Axis(sh.len() - 1));
        rr.assign(&c);          // same logical contents, reversed strides on the last axis
        let _ = r;
        out.push(("rev-last".to_string(), rr));
    }
    out
}

pub fn run(scn: &str) {
    let mut v: Vec<Check> = Vec::new();
    let mut ck = |name: &str, ok: bool, detail: String| v.push(Check { name: format!("A:shim:{name}"), ok, detail });
    // ---- Array::zeros / raw_dim / Dimension indexing and `dim[0] -= 1`
    for sh in shapes() {
        let z: ArrayD<f64> = Array::zeros(IxDyn(&sh));
        let lanes: usize = sh[1..].iter().product();
        ck(&format!("zeros[{sh:?}]"), z.shape() == &sh[..] && z.iter().all(|e| *e == 0.0 && e.is_sign_positive()) && rows_of(&z).iter().all(|r| r.len() == lanes), String::new());
        let d = z.raw_dim();
        ck(&format!("raw_dim[{sh:?}]"), d[0] == sh[0] && d.slice() == &sh[..], String::new());
        if sh[0] >= 1 {
            let mut d2 = z.raw_dim();
            d2[0] -= 1;
            let z2: ArrayD<f64> = Array::zeros(d2.clone());
            ck(&format!("dim-set[{sh:?}]"), z2.shape()[0] == sh[0] - 1 && z2.shape()[1..] == sh[1..], String::new());
        }
        let z1: Array1<f64> = Array::zeros(sh[0]);
        ck(&format!("zeros-1d[{}]", sh[0]), z1.len() == sh[0] && z1.iter().all(|e| *e == 0.0), String::new());
    }
    // ---- index_axis / index_axis_mut / fill / view_mut / into_owned: row i and nothing else, in every layout
    for sh in shapes() {
        for (lname, a) in layouts(&sh) {
            let before = rows_of(&a);
            for i in 0..sh[0] {
                let row: Vec<f64> = a.index_axis(Axis(0), i).iter().copied().collect();
                ck(&format!("index_axis[{sh:?},{lname},{i}]"), row == before[i], String::new());
                let owned = a.index_axis(Axis(0), i).into_owned();
                ck(&format!("into_owned[{sh:?},{lname},{i}]"), owned.iter().copied().collect::<Vec<_>>() == before[i], String::new());
                let mut b = a.clone();
                { let mut r = b.index_axis_mut(Axis(0), i); for (k, e) in r.iter_mut().enumerate() { *e = 100.0 + k as f64; } }
                let after = rows_of(&b);
                let ok = (0..sh[0]).all(|t| if t == i { after[t].iter().enumerate().all(|(k, e)| *e == 100.0 + k as f64) } else { after[t] == before[t] });
                ck(&format!("index_axis_mut[{sh:?},{lname},{i}]"), ok, String::new());
                let mut c = a.clone();
                c.index_axis_mut(Axis(0), i).fill(7.25);
                let after = rows_of(&c);
                ck(&format!("fill[{sh:?},{lname},{i}]"), (0..sh[0]).all(|t| if t == i { after[t].iter().all(|e| *e == 7.25) } else { after[t] == before[t] }), String::new());
                let mut d = a.clone();
                { let mut vm = d.view_mut(); vm.index_axis_mut(Axis(0), i).fill(-1.5); }
                let after = rows_of(&d);
                ck(&format!("view_mut[{sh:?},{lname},{i}]"), (0..sh[0]).all(|t| if t == i { after[t].iter().all(|e| *e == -1.5) } else { after[t] == before[t] }), String::new());
            }
        }
    }
    // ---- slice_mut(s![1..-1]) and windows(3) on 1-D arrays (also with a reversed stride)
    for n in 2usize..9 {
        for rev in [false, true] {
            let mut a: Array1<f64> = Array1::from((0..n).map(|i| i as f64 * 1.5).collect::<Vec<_>>());
            if rev { a.invert_axis(Axis(0)); let c: Vec<f64> = (0..n).map(|i| i as f64 * 1.5).collect(); for (e, w) in a.iter_mut().zip(c) { *e = w; } }
            let before: Vec<f64> = a.iter().copied().collect();
            { let mut m = a.slice_mut(s![1..-1]); let ok = m.len() == n - 2 && m.iter().copied().collect::<Vec<_>>() == before[1..n - 1].to_vec(); ck(&format!("slice_mut-view[{n},rev={rev}]"), ok, String::new()); for e in m.iter_mut() { *e = -9.0; } }
            let after: Vec<f64> = a.iter().copied().collect();
            ck(&format!("slice_mut-frame[{n},rev={rev}]"), after[0] == before[0] && after[n - 1] == before[n - 1] && after[1..n - 1].iter().all(|e| *e == -9.0), String::new());
            let b: Array1<f64> = Array1::from(before.clone());
            let w: Vec<Vec<f64>> = b.windows(3).into_iter().map(|w| w.iter().copied().collect()).collect();
            let want: Vec<Vec<f64>> = if n >= 3 { (0..n - 2).map(|i| before[i..i + 3].to_vec()).collect() } else { vec![] };
            ck(&format!("windows3[{n}]"), w == want, String::new());
        }
    }
    // ---- Zip: equal shapes visit every lane once in lock step; unequal shapes panic (modelled as divergence)
    for sh in [vec![3usize], vec![2, 3], vec![2, 1, 2]] {
        let a = ArrayD::from_shape_fn(IxDyn(&sh), |ix| ix.slice().iter().sum::<usize>() as f64);
        let mut t = ArrayD::<f64>::zeros(IxDyn(&sh).f());
        Zip::from(&mut t).and(&a).for_each(|t, &a| *t = a * 2.0);
        ck(&format!("zip-lockstep[{sh:?}]"), t.iter().zip(a.iter()).all(|(t, a)| *t == *a * 2.0), String::new());
        let mut t2 = ArrayD::<f64>::zeros(IxDyn(&sh));
        Zip::from(&a).map_assign_into(&mut t2, |&a| a + 1.0);
        ck(&format!("zip-map_assign_into[{sh:?}]"), t2.iter().zip(a.iter()).all(|(t, a)| *t == *a + 1.0), String::new());
        let mut bad = sh.clone(); bad[0] += 1;
        let b = ArrayD::<f64>::zeros(IxDyn(&bad));
        let r = catch_unwind(AssertUnwindSafe(|| { let mut n = 0; Zip::from(&a).and(&b).for_each(|_, _| n += 1); n }));
        ck(&format!("zip-shape-mismatch-panics[{sh:?}]"), r.is_err(), String::new());
    }
    // ---- rewrites R8 / R9: `a[i] -= e` is `a[i] = a[i] - e`; `(a..b).rev()` counts down from b-1 to a
    {
        let mut a = Array1::from(vec![1.5f64, -2.25, 1e-300, 3.0]);
        let mut b = a.clone();
        for i in 0..4 { a[i] -= 0.1 * (i as f64 + 1.0); b[i] = b[i] - 0.1 * (i as f64 + 1.0); }
        ck("compound-assign", a.iter().zip(b.iter()).all(|(x, y)| x.to_bits() == y.to_bits()), String::new());
        let r: Vec<usize> = (2..7).rev().collect();
        let mut w = Vec::new(); let mut k = 7usize; while k > 2 { k -= 1; w.push(k); }
        ck("reversed-range", r == w, String::new());
        let two = 2.0f64;
        ck("pow-two-is-square", [0.5f64, 3.0, 1e-200, 1.25e100, -7.0].iter().all(|x| num_traits::Pow::pow(*x, two) == x * x), String::new());
    }
    // ---- whole-array arithmetic, axis-0 slicing and assign (specs/arrayops.rs, Periodic arms of solve_for_k)
    for sh in [vec![4usize], vec![5, 3], vec![4, 2, 2], vec![6, 1]] {
        for (lname, a) in layouts(&sh) {
            let n = sh[0];
            let rows = rows_of(&a);
            let lanes = rows[0].len();
            let r0 = a.index_axis(Axis(0), 0);
            let r1 = a.index_axis(Axis(0), 1);
            let flat = |x: &ArrayD<f64>| x.iter().copied().collect::<Vec<f64>>();
            let sub = &r1 - &r0;
            ck(&format!("op-sub[{sh:?},{lname}]"), flat(&sub) == (0..lanes).map(|j| rows[1][j] - rows[0][j]).collect::<Vec<_>>(), String::new());
            let d = sub.clone() / 0.75;
            ck(&format!("op-div-scalar[{sh:?},{lname}]"), flat(&d) == (0..lanes).map(|j| (rows[1][j] - rows[0][j]) / 0.75).collect::<Vec<_>>(), String::new());
            let m = &sub * 1.5 + &d * 0.25;
            ck(&format!("op-mul-add[{sh:?},{lname}]"), flat(&m) == (0..lanes).map(|j| (rows[1][j] - rows[0][j]) * 1.5 + ((rows[1][j] - rows[0][j]) / 0.75) * 0.25).collect::<Vec<_>>(), String::new());
            let e = (&r0 - &sub * 2.0 - &d * 0.5) / (&sub * 0.5 + &d * 2.0 + 3.25);
            ck(&format!("op-chain[{sh:?},{lname}]"), flat(&e).iter().zip(0..lanes).all(|(g, j)| { let s_ = rows[1][j] - rows[0][j]; let d_ = s_ / 0.75; let w = (rows[0][j] - s_ * 2.0 - d_ * 0.5) / (s_ * 0.5 + d_ * 2.0 + 3.25); g.to_bits() == w.to_bits() || (g.is_nan() && w.is_nan()) }), String::new());
            // broadcast of a lane bundle along axis 0, array + array
            let k1 = a.clone();
            let k2 = a.mapv(|v| v * 0.5 + 1.0);
            let s2 = k1.clone() + &sub * k2.clone();
            let rows2 = rows_of(&k2);
            ck(&format!("op-broadcast[{sh:?},{lname}]"), rows_of(&s2) == (0..n).map(|i| (0..lanes).map(|j| rows[i][j] + (rows[1][j] - rows[0][j]) * rows2[i][j]).collect::<Vec<_>>()).collect::<Vec<_>>(), String::new());
            // slicing along axis 0
            let mut t = a.clone();
            t.slice_axis_inplace(Axis(0), ndarray::Slice::from(0..-2));
            ck(&format!("slice_axis_inplace[{sh:?},{lname}]"), rows_of(&t) == rows[..n - 2].to_vec(), String::new());
            let o = a.slice_axis(Axis(0), ndarray::Slice::from(0..-1)).to_owned();
            ck(&format!("slice_axis-to_owned[{sh:?},{lname}]"), rows_of(&o) == rows[..n - 1].to_vec(), String::new());
            let mut u = a.clone();
            u.slice_axis_mut(Axis(0), ndarray::Slice::from(0..-2)).assign(&t.mapv(|v| v + 10.0));
            let ru = rows_of(&u);
            ck(&format!("slice_axis_mut-assign[{sh:?},{lname}]"), (0..n).all(|i| if i < n - 2 { ru[i] == rows[i].iter().map(|v| v + 10.0).collect::<Vec<_>>() } else { ru[i] == rows[i] }), String::new());
            let mut w = a.clone();
            w.assign(&sub);
            ck(&format!("assign-broadcast[{sh:?},{lname}]"), rows_of(&w).iter().all(|r| *r == flat(&sub)), String::new());
            let mut z = a.clone();
            z.index_axis_mut(Axis(0), n - 1).assign(&sub);
            let rz = rows_of(&z);
            ck(&format!("assign-row[{sh:?},{lname}]"), (0..n).all(|i| if i == n - 1 { rz[i] == flat(&sub) } else { rz[i] == rows[i] }), String::new());
            // element-wise comparison
            let mut b = a.clone();
            ck(&format!("eq-same[{sh:?},{lname}]"), !(a.index_axis(Axis(0), 0) != b.index_axis(Axis(0), 0)), String::new());
            if lanes > 0 {
                let last = b.index_axis(Axis(0), 0).len() - 1;
                *b.index_axis_mut(Axis(0), 0).iter_mut().nth(last).unwrap() += 1.0;
                ck(&format!("ne-one-lane[{sh:?},{lname}]"), a.index_axis(Axis(0), 0) != b.index_axis(Axis(0), 0), String::new());
                let mut c = a.clone();
                *c.index_axis_mut(Axis(0), 0).iter_mut().next().unwrap() = f64::NAN;
                ck(&format!("ne-nan[{sh:?},{lname}]"), c.index_axis(Axis(0), 0) != c.index_axis(Axis(0), 0), String::new());
            }
        }
    }
    // ---- dynamic-rank views (specs/dynarr.rs): axis_iter / axis_iter_mut over the LAST axis, len_of, ndim, first, into_dyn,
    //      Zip::fold_while (sequential, early exit at Done, accumulator is the value) and Result::map_or_else (rewrites R12 / R13)
    for sh in [vec![3usize, 2], vec![4, 2, 3], vec![3, 1, 2], vec![5, 3, 1, 2], vec![3, 2, 0], vec![3, 0, 2], vec![4, 3]] {
        for (lname, a) in layouts(&sh) {
            let rows = rows_of(&a);
            let nd = sh.len();
            let d = sh[nd - 1];
            let lanes: usize = sh[1..].iter().product();
            let ax = Axis(nd - 1);
            ck(&format!("dyn-ndim-len_of[{sh:?},{lname}]"), a.ndim() == nd && a.len_of(ax) == d && a.axis_iter(ax).len() == d, String::new());
            let dynv = a.view().into_dyn();
            ck(&format!("into_dyn[{sh:?},{lname}]"), dynv.shape() == &sh[..] && rows_of(&dynv.to_owned()) == rows && rows.iter().all(|r| r.len() == lanes), String::new());
            // item i of axis_iter(last): shape = shape without the last axis; lane s of the item is lane s*d + i of the parent
            let mut ok_item = true;
            for (i, it) in a.axis_iter(ax).enumerate() {
                let sub = rows_of(&it.to_owned().into_dyn());
                ok_item &= it.shape() == &sh[..nd - 1];
                for j in 0..lanes { if j % d == i { for r in 0..sh[0] { ok_item &= sub[r][j / d].to_bits() == rows[r][j].to_bits(); } } }
                ok_item &= sub.iter().all(|r| r.len() * d == lanes);
            }
            ck(&format!("axis_item[{sh:?},{lname}]"), ok_item, String::new());
            // writes through item i of axis_iter_mut land in the lanes j with j % d == i and nowhere else
            let mut ok_mut = true;
            for i in 0..d {
                let mut b = a.clone();
                { let mut it = b.axis_iter_mut(ax).nth(i).unwrap(); it.mapv_inplace(|v| v * 2.0 + 100.0); }
                let rb = rows_of(&b);
                for r in 0..sh[0] { for j in 0..lanes { let want = if j % d == i { rows[r][j] * 2.0 + 100.0 } else { rows[r][j] }; ok_mut &= rb[r][j].to_bits() == want.to_bits(); } }
                ok_mut &= b.shape() == &sh[..];
            }
            ck(&format!("axis_item_mut[{sh:?},{lname}]"), ok_mut, String::new());
            let fe = a.first().copied();
            ck(&format!("first[{sh:?},{lname}]"), if sh[0] > 0 && lanes > 0 { fe.map(f64::to_bits) == Some(rows[0][0].to_bits()) } else { fe.is_none() }, String::new());
            // fold_while: items visited in order 0,1,..; stops after the first Done; into_inner() is the last accumulator
            for stop in [None, Some(0usize), Some(1)] {
                let mut seen: Vec<usize> = Vec::new();
                let mut b = a.clone();
                let idx = Array1::from_iter(0..d);
                let r = Zip::from(b.axis_iter_mut(ax)).and(a.axis_iter(ax)).and(&idx).fold_while(Ok::<(), usize>(()), |_, mut kk, dd, &i| {
                    seen.push(i);
                    kk.assign(&dd.mapv(|v| v + 1.0));
                    (if Some(i) == stop { Err(i) } else { Ok(()) }).map_or_else(|e| ndarray::FoldWhile::Done(Err(e)), |_| ndarray::FoldWhile::Continue(Ok(())))
                }).into_inner();
                let upto = match stop { Some(sx) if sx < d => sx + 1, _ => d };
                let want_r = match stop { Some(sx) if sx < d => Err(sx), _ => Ok(()) };
                let rb = rows_of(&b);
                let mut okf = seen == (0..upto).collect::<Vec<_>>() && r == want_r;
                for rr in 0..sh[0] { for j in 0..lanes { let want = if d > 0 && j % d < upto { rows[rr][j] + 1.0 } else { rows[rr][j] }; okf &= rb[rr][j].to_bits() == want.to_bits(); } }
                ck(&format!("fold_while[{sh:?},{lname},{stop:?}]"), okf, String::new());
            }
        }
    }
    // Zip over axis iterators of different extent panics (zipfold_check is a proof obligation in the shim)
    {
        let a: ArrayD<f64> = Array::zeros(IxDyn(&[3, 2]));
        let b: ArrayD<f64> = Array::zeros(IxDyn(&[3, 3]));
        let p = catch_unwind(AssertUnwindSafe(|| { Zip::from(a.axis_iter(Axis(1))).and(b.axis_iter(Axis(1))).for_each(|_, _| {}); })).is_err();
        ck("fold_while-extent-mismatch-panics", p, String::new());
    }
    emit(scn, &v);
}
