//! more relational scenarios: 2-D entry points, fast path vs general path over all instantiations,
//! the builder decision table, lane-alone identity.
use std::panic::{catch_unwind, AssertUnwindSafe};

use ndarray::{
    arr0, Array, Array1, Array2, ArrayBase, ArrayD, ArrayViewMut, Axis, Data, Dimension, Ix0, Ix1, Ix2, Ix3, Ix4, Ix5, Ix6, IxDyn, OwnedRepr, RemoveAxis,
    ShapeBuilder,
};
use ndarray_interp::interp1d::cubic_spline::{BoundaryCondition, CubicSpline, RowBoundary};
use ndarray_interp::interp1d::{Interp1DBuilder, Linear};
use ndarray_interp::interp2d::{Bilinear, Interp2DBuilder, Interp2DStrategyBuilder};
use ndarray_interp::{BuilderError, InterpolateError};

use crate::entry::*;
use crate::sym::*;
use crate::{axis, row_boundary};

fn ck(v: &mut Vec<Check>, name: String, ok: bool, detail: String) { v.push(Check { name, ok, detail }); }
fn ids<D: Dimension>(a: &Array<Sym, D>) -> Vec<u32> { a.iter().map(|s| s.0).collect() }
fn shape_arg(args: &[String], key: &str) -> Vec<usize> {
    for a in args { if let Some(v) = a.strip_prefix(&format!("{key}=")) { return v.split('x').filter(|s| !s.is_empty()).map(|s| s.parse().unwrap()).collect(); } }
    vec![]
}
fn str_arg<'a>(args: &'a [String], key: &str, d: &'a str) -> &'a str {
    for a in args { if let Some(v) = a.strip_prefix(&format!("{key}=")) { return v; } }
    d
}

// ------------------------------------------------------------------------------------------------
// 2-D entry points
// ------------------------------------------------------------------------------------------------
macro_rules! entry2d_case {
    ($fname:ident, $D:ty, $Dq:ty, $B:ty) => {
        pub fn $fname<SB>(tag: &str, dshape: &[usize], qshape: &[usize], mk_strat: &dyn Fn() -> SB, builtin: bool, checks: &mut Vec<Check>)
        where SB: Interp2DStrategyBuilder<OwnedRepr<Sym>, OwnedRepr<Sym>, OwnedRepr<Sym>, $D>,
        {
            let (nx, ny) = (dshape[0], dshape[1]);
            let x = axis("x", nx, 1);
            let y = axis("y", ny, 4);
            let (x0, xn, y0, yn) = (shadow(x[0]), shadow(x[nx - 1]), shadow(y[0]), shadow(y[ny - 1]));
            let data: Array<Sym, $D> = sym_array("d", dshape, -2.0, 3.0).into_dimensionality::<$D>().unwrap();
            let qx: Array<Sym, $Dq> = sym_array("qx", qshape, x0 + 0.01, xn - 0.01).into_dimensionality::<$Dq>().unwrap();
            let qy: Array<Sym, $Dq> = sym_array("qy", qshape, y0 + 0.01, yn - 0.01).into_dimensionality::<$Dq>().unwrap();
            let interp = match Interp2DBuilder::new(data.clone()).x(x.clone()).y(y.clone()).strategy(mk_strat()).build() {
                Ok(i) => i, Err(e) => { ck(checks, format!("{tag}:build"), false, format!("{e}")); return; }
            };
            let mut want_shape: Vec<usize> = qshape.to_vec();
            want_shape.extend_from_slice(&dshape[2..]);
            let trailing: Vec<usize> = dshape[2..].to_vec();
            let lanes: usize = trailing.iter().product();
            reset_logs2();
            let r_arr = match interp.interp_array(&qx, &qy) { Ok(r) => r, Err(e) => { ck(checks, format!("C09:{tag}:interp_array"), false, format!("{e}")); return; } };
            let log_batch = LOG.with(|l| l.borrow().clone());
            ck(checks, format!("C09:{tag}:result-shape"), r_arr.shape() == &want_shape[..], format!("got {:?} want {:?}", r_arr.shape(), want_shape));
            let flat_arr = ids(&r_arr);
            let mut ok_single = true; let mut ok_into = true;
            for (k, (a, b)) in qx.iter().zip(qy.iter()).enumerate() {
                let single = interp.interp(*a, *b).unwrap();
                let s_ids = ids(&single);
                ok_single &= s_ids[..] == flat_arr[k * lanes..(k + 1) * lanes] && single.shape() == &trailing[..];
                let mut buf = Array::from_elem(single.raw_dim(), konst_frac(7, 1));
                interp.interp_into(*a, *b, buf.view_mut()).unwrap();
                ok_into &= ids(&buf) == s_ids;
            }
            ck(checks, format!("C09:{tag}:array-eq-single"), ok_single, String::new());
            ck(checks, format!("C09:{tag}:interp_into-eq-interp"), ok_into, String::new());
            let poison = var("POISON", 12345.0);
            let want_dim = r_arr.raw_dim();
            {
                let mut buf: Array<Sym, $B> = Array::from_elem(want_dim.clone(), poison);
                let r = interp.interp_array_into(&qx, &qy, buf.view_mut());
                ck(checks, format!("C09:{tag}:array_into-eq-alloc"), r.is_ok() && ids(&buf) == flat_arr, String::new());
                ck(checks, format!("C14:{tag}:every-element-overwritten"), !ids(&buf).contains(&poison.0), String::new());
            }
            if r_arr.ndim() > 0 && !flat_arr.is_empty() {
                let mut fbuf: Array<Sym, $B> = Array::from_elem(want_dim.clone().f(), poison);
                let r = catch_unwind(AssertUnwindSafe(|| interp.interp_array_into(&qx, &qy, fbuf.view_mut())));
                let okr = matches!(r, Ok(Ok(())));
                ck(checks, format!("C13:{tag}:f-order-buffer-accepted"), okr && ids(&fbuf) == flat_arr, format!("ok={okr}"));
                // window into a larger poisoned array
                let mut big_dim = want_dim.clone();
                for ax in 0..big_dim.ndim() { big_dim[ax] += 2; }
                let mut big: Array<Sym, $B> = Array::from_elem(big_dim, poison);
                let total_big = big.len();
                let r = catch_unwind(AssertUnwindSafe(|| {
                    let mut v = big.view_mut();
                    for ax in 0..v.ndim() { let l = v.len_of(Axis(ax)); v.slice_axis_inplace(Axis(ax), ndarray::Slice::from(1..l - 1)); }
                    interp.interp_array_into(&qx, &qy, v)
                }));
                let okr = matches!(r, Ok(Ok(())));
                let poison_left = big.iter().filter(|s| s.0 == poison.0).count();
                ck(checks, format!("C13:{tag}:window-buffer-accepted"), okr, format!("ok={okr}"));
                ck(checks, format!("C14:{tag}:outside-window-untouched"), !okr || poison_left == total_big - flat_arr.len(), format!("{poison_left}"));
            }
            if qx.ndim() > 0 && qx.len() > 0 {
                let mut fx = Array::from_elem(qx.raw_dim().f(), konst_frac(0, 1)); fx.assign(&qx);
                let mut fy = Array::from_elem(qy.raw_dim().f(), konst_frac(0, 1)); fy.assign(&qy);
                let (rx, ry) = (reversed_holder(&qx), reversed_holder(&qy));
                for (nm, a, b) in [("xs-f-order", &fx, &qy), ("ys-f-order", &qx, &fy), ("both-f-order", &fx, &fy), ("xs-reversed", &rx, &qy), ("ys-reversed", &qx, &ry), ("both-reversed", &rx, &ry), ("xs-f-ys-reversed", &fx, &ry)] {
                    let r = catch_unwind(AssertUnwindSafe(|| interp.interp_array(a, b)));
                    ck(checks, format!("C13:{tag}:query-{nm}"), matches!(&r, Ok(Ok(a)) if ids(a) == flat_arr), String::new());
                }
            }
            if let (Some(a), Some(b)) = (qx.iter().next(), qy.iter().next()) {
                let single = interp.interp(*a, *b).unwrap();
                let s_ids = ids(&single);
                if single.ndim() > 0 && !s_ids.is_empty() {
                    let poison = var("POISON", 12345.0);
                    let mut fbuf = Array::from_elem(single.raw_dim().f(), poison);
                    let r = catch_unwind(AssertUnwindSafe(|| interp.interp_into(*a, *b, fbuf.view_mut())));
                    ck(checks, format!("C13:{tag}:single-into-f-order-buffer"), matches!(r, Ok(Ok(()))) && ids(&fbuf) == s_ids, String::new());
                    let mut rbuf = reversed_holder(&Array::from_elem(single.raw_dim(), poison));
                    let r = catch_unwind(AssertUnwindSafe(|| interp.interp_into(*a, *b, rbuf.view_mut())));
                    ck(checks, format!("C13:{tag}:single-into-reversed-buffer"), matches!(r, Ok(Ok(()))) && ids(&rbuf) == s_ids, String::new());
                    if builtin {
                        let want: Vec<usize> = single.shape().to_vec();
                        let mut shapes: Vec<(String, Vec<usize>)> = Vec::new();
                        for ax in 0..want.len() {
                            let mut s2 = want.clone(); s2[ax] += 1; shapes.push((format!("axis{ax}+1"), s2));
                            if want[ax] > 0 { let mut s2 = want.clone(); s2[ax] -= 1; shapes.push((format!("axis{ax}-1"), s2)); }
                        }
                        for p in 0..want.len() { for q2 in p + 1..want.len() { if want[p] != want[q2] { let mut s2 = want.clone(); s2.swap(p, q2); shapes.push((format!("swap{p}{q2}"), s2)); } } }
                        for (nm, s2) in shapes {
                            if let Ok(mut buf) = ArrayD::from_elem(IxDyn(&s2), poison).into_dimensionality::<<<$D as Dimension>::Smaller as Dimension>::Smaller>() {
                                let r = catch_unwind(AssertUnwindSafe(|| interp.interp_into(*a, *b, buf.view_mut())));
                                ck(checks, format!("C14:{tag}:single-into-reject[{nm}]"), !matches!(r, Ok(Ok(()))), format!("shape {:?} for required {:?}", s2, want));
                            }
                        }
                    }
                }
            }
            // an empty xs with a non-empty ys is a shape mismatch like any other
            if qx.ndim() == 1 {
                let e: Array<Sym, $Dq> = sym_array("qe", &[0], 0.0, 1.0).into_dimensionality::<$Dq>().unwrap();
                let f: Array<Sym, $Dq> = sym_array("qf", &[3], y0 + 0.01, yn - 0.01).into_dimensionality::<$Dq>().unwrap();
                let mut buf: Array<Sym, $B> = Array::from_elem(r_arr.raw_dim(), var("POISON", 12345.0));
                let r = catch_unwind(AssertUnwindSafe(|| interp.interp_array_into(&e, &f, buf.view_mut())));
                ck(checks, format!("C14:{tag}:reject[empty-xs-nonempty-ys]"), !matches!(r, Ok(Ok(()))), String::new());
            }
            // dynamic-rank queries: ys with an extra length-1 axis is a shape mismatch as well
            {
                let mut s3 = qshape.to_vec(); s3.push(1);
                if let Ok(qy3) = sym_array("qy", &s3, y0 + 0.01, yn - 0.01).into_dimensionality::<$Dq>() {
                    let r = catch_unwind(AssertUnwindSafe(|| interp.interp_array(&qx, &qy3)));
                    ck(checks, format!("C14:{tag}:reject[ys-extra-unit-axis]"), !matches!(r, Ok(Ok(_))), String::new());
                }
            }
            // xs / ys of different shapes never produce Ok (C14)
            if qx.ndim() > 0 {
                let mut s2 = qshape.to_vec(); s2[0] += 1;
                let qy2: Array<Sym, $Dq> = sym_array("qy", &s2, y0 + 0.01, yn - 0.01).into_dimensionality::<$Dq>().unwrap();
                let r = catch_unwind(AssertUnwindSafe(|| interp.interp_array(&qx, &qy2)));
                ck(checks, format!("C14:{tag}:reject[xs-ys-shape-mismatch]"), !matches!(r, Ok(Ok(_))), String::new());
            }
            if r_arr.ndim() > 0 && builtin {
                let mut shapes: Vec<(String, Vec<usize>)> = Vec::new();
                for ax in 0..want_shape.len() {
                    let mut s = want_shape.clone(); s[ax] += 1; shapes.push((format!("axis{ax}+1"), s));
                    if want_shape[ax] > 0 { let mut s = want_shape.clone(); s[ax] -= 1; shapes.push((format!("axis{ax}-1"), s)); }
                }
                for a in 0..want_shape.len() { for b in a + 1..want_shape.len() {
                    if want_shape[a] != want_shape[b] { let mut s = want_shape.clone(); s.swap(a, b); shapes.push((format!("swap{a}{b}"), s)); }
                } }
                for (nm, s) in shapes {
                    if let Ok(mut buf) = ArrayD::from_elem(IxDyn(&s), poison).into_dimensionality::<$B>() {
                        let r = catch_unwind(AssertUnwindSafe(|| interp.interp_array_into(&qx, &qy, buf.view_mut())));
                        let returned_ok = matches!(r, Ok(Ok(())));
                        ck(checks, format!("C14:{tag}:reject[{nm}]"), !returned_ok, format!("shape {:?} for required {:?} -> {}", s, want_shape, if returned_ok { "Ok" } else { "rejected" }));
                    }
                }
            }
            if !builtin {
                let want: Vec<(u32, u32)> = qx.iter().zip(qy.iter()).map(|(a, b)| (a.0, b.0)).collect();
                let seen: Vec<(u32, u32)> = log_batch.iter().map(|e| (e.0, e.1)).collect();
                ck(checks, format!("C18:{tag}:queries-unmodified-in-order"), seen == want, format!("{} calls", seen.len()));
                ck(checks, format!("C18:{tag}:target-shape"), log_batch.iter().all(|e| e.2 == trailing), String::new());
                for k in 0..qx.len() {
                    reset_logs2();
                    FAIL_AT.with(|f| f.set(Some(k)));
                    let r = interp.interp_array(&qx, &qy);
                    let calls = CALLS.with(|c| c.get());
                    ck(checks, format!("C18:{tag}:error-passthrough[call={k}]"), matches!(&r, Err(InterpolateError::OutOfBounds(m)) if m == &format!("injected-{k}")) && calls == k + 1, format!("calls={calls}"));
                }
                reset_logs2();
            } else {
                for k in 0..qx.len() {
                    let mut q2 = qx.clone();
                    *q2.iter_mut().nth(k).unwrap() = var("qbad_hi", xn + 1.0);
                    ck(checks, format!("C05:{tag}:batch-error-x[pos={k}]"), matches!(interp.interp_array(&q2, &qy), Err(InterpolateError::OutOfBounds(_))), String::new());
                    let any_single_err = q2.iter().zip(qy.iter()).any(|(a, b)| interp.interp(*a, *b).is_err());
                    ck(checks, format!("C09:{tag}:error-agreement[pos={k}]"), interp.interp_array(&q2, &qy).is_err() == any_single_err, String::new());
                    let mut q3 = qy.clone();
                    *q3.iter_mut().nth(k).unwrap() = var("qbad_lo", y0 - 1.0);
                    ck(checks, format!("C05:{tag}:batch-error-y[pos={k}]"), matches!(interp.interp_array(&qx, &q3), Err(InterpolateError::OutOfBounds(_))), String::new());
                }
                let _ = interp.interp(var("qbad_hi", xn + 1.0), qy.iter().next().copied().unwrap_or(y[0]));
                let again = interp.interp_array(&qx, &qy).unwrap();
                ck(checks, format!("C17:{tag}:history-independent"), ids(&again) == flat_arr, String::new());
            }
        }
    };
}
fn reset_logs2() { LOG.with(|l| l.borrow_mut().clear()); CALLS.with(|c| c.set(0)); FAIL_AT.with(|f| f.set(None)); }

entry2d_case!(e2_d2_q1, Ix2, Ix1, Ix1);
entry2d_case!(e2_d3_q1, Ix3, Ix1, Ix2);
entry2d_case!(e2_d4_q1, Ix4, Ix1, Ix3);
entry2d_case!(e2_d2_q0, Ix2, Ix0, Ix0);
entry2d_case!(e2_d3_q0, Ix3, Ix0, Ix1);
entry2d_case!(e2_d2_q2, Ix2, Ix2, Ix2);
entry2d_case!(e2_d3_q2, Ix3, Ix2, Ix3);
entry2d_case!(e2_d4_q2, Ix4, Ix2, Ix4);
entry2d_case!(e2_dd_q1, IxDyn, Ix1, IxDyn);
entry2d_case!(e2_dd_qd, IxDyn, IxDyn, IxDyn);
entry2d_case!(e2_d3_qd, Ix3, IxDyn, IxDyn);
entry2d_case!(e2_d2_qd, Ix2, IxDyn, IxDyn);

macro_rules! run_strats2 {
    ($f:ident, $tag:expr, $ds:expr, $qs:expr, $strat:expr, $checks:expr) => {
        match $strat {
            "bilinear" => $f($tag, $ds, $qs, &|| Bilinear::new(), true, $checks),
            "record" => $f($tag, $ds, $qs, &|| Rec::<2>, false, $checks),
            other => panic!("unknown strategy {other}"),
        }
    };
}

pub fn entry2d(args: &[String], checks: &mut Vec<Check>) {
    let ds = shape_arg(args, "data");
    let qs = shape_arg(args, "q");
    let dd = str_arg(args, "ddyn", "0") == "1";
    let qd = str_arg(args, "qdyn", "0") == "1";
    let strat = str_arg(args, "strat", "bilinear");
    let tag = format!("2d[data={}{},q={}{},{}]", str_arg(args, "data", ""), if dd { "dyn" } else { "" }, str_arg(args, "q", "()"), if qd { "dyn" } else { "" }, strat);
    let tag = tag.as_str();
    match (dd, ds.len(), qd, qs.len()) {
        (false, 2, false, 1) => run_strats2!(e2_d2_q1, tag, &ds, &qs, strat, checks),
        (false, 3, false, 1) => run_strats2!(e2_d3_q1, tag, &ds, &qs, strat, checks),
        (false, 4, false, 1) => run_strats2!(e2_d4_q1, tag, &ds, &qs, strat, checks),
        (false, 2, false, 0) => run_strats2!(e2_d2_q0, tag, &ds, &qs, strat, checks),
        (false, 3, false, 0) => run_strats2!(e2_d3_q0, tag, &ds, &qs, strat, checks),
        (false, 2, false, 2) => run_strats2!(e2_d2_q2, tag, &ds, &qs, strat, checks),
        (false, 3, false, 2) => run_strats2!(e2_d3_q2, tag, &ds, &qs, strat, checks),
        (false, 4, false, 2) => run_strats2!(e2_d4_q2, tag, &ds, &qs, strat, checks),
        (true, _, false, 1) => run_strats2!(e2_dd_q1, tag, &ds, &qs, strat, checks),
        (true, _, true, _) => run_strats2!(e2_dd_qd, tag, &ds, &qs, strat, checks),
        (false, 3, true, _) => run_strats2!(e2_d3_qd, tag, &ds, &qs, strat, checks),
        (false, 2, true, _) => run_strats2!(e2_d2_qd, tag, &ds, &qs, strat, checks),
        _ => panic!("no monomorphic 2-D case for this rank combination"),
    }
    // interp_scalar == interp on 2-D data
    if !dd && ds.len() == 2 && strat == "bilinear" {
        let x = axis("x", ds[0], 1); let y = axis("y", ds[1], 4);
        let data: Array2<Sym> = sym_array("d", &ds, -2.0, 3.0).into_dimensionality().unwrap();
        let it = Interp2DBuilder::new(data).x(x.clone()).y(y.clone()).build().unwrap();
        let (qa, qb) = (var("qsx", shadow(x[0]) + 0.3), var("qsy", shadow(y[0]) + 0.2));
        let s = it.interp_scalar(qa, qb).unwrap();
        let a = it.interp(qa, qb).unwrap();
        ck(checks, format!("C09:{tag}:scalar-eq-interp"), a.ndim() == 0 && a.iter().next().unwrap().0 == s.0, String::new());
    }
}

// ------------------------------------------------------------------------------------------------
// C19: every instantiation of the Ix1 fast path agrees with the general path (dynamic 1-d query)
// ------------------------------------------------------------------------------------------------
trait Elem: Copy + std::fmt::Debug + PartialEq + num_traits::Num + num_traits::NumCast + PartialOrd + Send + std::ops::Sub<Output = Self> + 'static {
    fn of(i: usize) -> Self;
    fn same(a: Self, b: Self) -> bool;
    fn name() -> &'static str;
}
impl Elem for f64 { fn of(i: usize) -> f64 { (i as f64) * 0.37 - 1.0 } fn same(a: f64, b: f64) -> bool { a.to_bits() == b.to_bits() } fn name() -> &'static str { "f64" } }
impl Elem for f32 { fn of(i: usize) -> f32 { (i as f32) * 0.37 - 1.0 } fn same(a: f32, b: f32) -> bool { a.to_bits() == b.to_bits() } fn name() -> &'static str { "f32" } }
impl Elem for i32 { fn of(i: usize) -> i32 { (i as i32) * 7 - 3 } fn same(a: i32, b: i32) -> bool { a == b } fn name() -> &'static str { "i32" } }
impl Elem for i64 { fn of(i: usize) -> i64 { (i as i64) * 7 - 3 } fn same(a: i64, b: i64) -> bool { a == b } fn name() -> &'static str { "i64" } }

fn cast_calls() -> usize {
    #[cfg(ndarray_interp_verif)]
    { ndarray_interp::verif::cast_unchecked_calls() }
    #[cfg(not(ndarray_interp_verif))]
    { usize::MAX }
}

macro_rules! fast1d {
    ($checks:expr, $E:ty, $D:ty, $shape:expr, $dn:expr) => {{
        let shape: Vec<usize> = $shape;
        let total: usize = shape.iter().product();
        let base: Array<$E, $D> = ArrayD::from_shape_vec(IxDyn(&shape), (0..total).map(<$E as Elem>::of).collect()).unwrap().into_dimensionality::<$D>().unwrap();
        let one = <$E as num_traits::One>::one();
        let q1: Array1<$E> = Array1::from(vec![<$E as num_traits::Zero>::zero(), one, one + one]);
        let qd = q1.clone().into_dyn();
        for storage in ["owned", "view", "shared"] {
            let tag = format!("C19:fast-eq-general[1d,{},{},{}]", <$E as Elem>::name(), $dn, storage);
            let r = catch_unwind(AssertUnwindSafe(|| {
                let c0 = cast_calls();
                let (fast, gen, c1, c2) = match storage {
                    "owned" => { let it = Interp1DBuilder::new(base.clone()).build().unwrap(); let a = it.interp_array(&q1).unwrap().into_dyn(); let c1 = cast_calls(); let b = it.interp_array(&qd).unwrap().into_dyn(); (a, b, c1, cast_calls()) }
                    "view" => { let it = Interp1DBuilder::new(base.view()).build().unwrap(); let a = it.interp_array(&q1.view()).unwrap().into_dyn(); let c1 = cast_calls(); let b = it.interp_array(&qd.view()).unwrap().into_dyn(); (a, b, c1, cast_calls()) }
                    _ => { let it = Interp1DBuilder::new(base.clone().into_shared()).build().unwrap(); let a = it.interp_array(&q1.clone().into_shared()).unwrap().into_dyn(); let c1 = cast_calls(); let b = it.interp_array(&qd.clone().into_shared()).unwrap().into_dyn(); (a, b, c1, cast_calls()) }
                };
                let mut same = fast.shape() == gen.shape() && fast.iter().zip(gen.iter()).all(|(a, b)| <$E as Elem>::same(*a, *b));
                let counted = c0 == usize::MAX || (c1 - c0 == 2 && c2 == c1);
                // a reversed-stride Ix1 query (contiguous, negative stride) must give the same rows on both paths
                if storage == "owned" {
                    let mut qr = Array1::from(q1.iter().rev().copied().collect::<Vec<_>>());
                    qr.invert_axis(Axis(0));
                    let it = Interp1DBuilder::new(base.clone()).build().unwrap();
                    let a = it.interp_array(&qr).unwrap().into_dyn();
                    let b = it.interp_array(&qr.clone().into_dyn()).unwrap().into_dyn();
                    same &= a.shape() == b.shape() && a.iter().zip(b.iter()).all(|(x, y)| <$E as Elem>::same(*x, *y)) && a.iter().zip(gen.iter()).all(|(x, y)| <$E as Elem>::same(*x, *y));
                }
                (same, counted, c1.wrapping_sub(c0), c2.wrapping_sub(c1))
            }));
            match r {
                Ok((same, counted, a, b)) => { ck($checks, tag.clone(), same, String::new()); ck($checks, tag.replace("fast-eq-general", "cast-only-on-fast-path"), counted, format!("casts: Ix1 query {a}, dyn query {b}")); }
                Err(_) => ck($checks, tag, false, "panic".into()),
            }
        }
    }};
}
macro_rules! fast2d {
    ($checks:expr, $E:ty, $D:ty, $shape:expr, $dn:expr) => {{
        let shape: Vec<usize> = $shape;
        let total: usize = shape.iter().product();
        let base: Array<$E, $D> = ArrayD::from_shape_vec(IxDyn(&shape), (0..total).map(<$E as Elem>::of).collect()).unwrap().into_dimensionality::<$D>().unwrap();
        let one = <$E as num_traits::One>::one();
        let q1: Array1<$E> = Array1::from(vec![<$E as num_traits::Zero>::zero(), one, one]);
        let p1: Array1<$E> = Array1::from(vec![one, <$E as num_traits::Zero>::zero(), one]);
        let (qd, pd) = (q1.clone().into_dyn(), p1.clone().into_dyn());
        for storage in ["owned", "view", "shared"] {
            let tag = format!("C19:fast-eq-general[2d,{},{},{}]", <$E as Elem>::name(), $dn, storage);
            let r = catch_unwind(AssertUnwindSafe(|| {
                let c0 = cast_calls();
                let (fast, gen, c1, c2) = match storage {
                    "owned" => { let it = Interp2DBuilder::new(base.clone()).build().unwrap(); let a = it.interp_array(&q1, &p1).unwrap().into_dyn(); let c1 = cast_calls(); let b = it.interp_array(&qd, &pd).unwrap().into_dyn(); (a, b, c1, cast_calls()) }
                    "view" => { let it = Interp2DBuilder::new(base.view()).build().unwrap(); let a = it.interp_array(&q1.view(), &p1.view()).unwrap().into_dyn(); let c1 = cast_calls(); let b = it.interp_array(&qd.view(), &pd.view()).unwrap().into_dyn(); (a, b, c1, cast_calls()) }
                    _ => { let it = Interp2DBuilder::new(base.clone().into_shared()).build().unwrap(); let a = it.interp_array(&q1.clone().into_shared(), &p1.clone().into_shared()).unwrap().into_dyn(); let c1 = cast_calls(); let b = it.interp_array(&qd.clone().into_shared(), &pd.clone().into_shared()).unwrap().into_dyn(); (a, b, c1, cast_calls()) }
                };
                let same = fast.shape() == gen.shape() && fast.iter().zip(gen.iter()).all(|(a, b)| <$E as Elem>::same(*a, *b));
                let counted = c0 == usize::MAX || (c1 - c0 == 3 && c2 == c1);
                (same, counted, c1.wrapping_sub(c0), c2.wrapping_sub(c1))
            }));
            match r {
                Ok((same, counted, a, b)) => { ck($checks, tag.clone(), same, String::new()); ck($checks, tag.replace("fast-eq-general", "cast-only-on-fast-path"), counted, format!("casts: Ix1 query {a}, dyn query {b}")); }
                Err(_) => ck($checks, tag, false, "panic".into()),
            }
        }
        // xs and ys of DIFFERENT storage kinds: each is relabelled to its own type
        let it = Interp2DBuilder::new(base.clone()).build().unwrap();
        let want = it.interp_array(&qd, &pd).unwrap().into_dyn();
        let (q1s, p1s) = (q1.clone().into_shared(), p1.clone().into_shared());
        macro_rules! mixed { ($nm:expr, $a:expr, $b:expr) => {{
            let r = catch_unwind(AssertUnwindSafe(|| it.interp_array($a, $b).map(|x| x.into_dyn())));
            let ok = matches!(&r, Ok(Ok(g)) if g.shape() == want.shape() && g.iter().zip(want.iter()).all(|(x, y)| <$E as Elem>::same(*x, *y)));
            ck($checks, format!("C19:fast-eq-general[2d,{},{},xs/ys storage {}]", <$E as Elem>::name(), $dn, $nm), ok, String::new());
        }}; }
        mixed!("owned/view", &q1, &p1.view());
        mixed!("view/owned", &q1.view(), &p1);
        mixed!("shared/view", &q1s, &p1.view());
        mixed!("owned/shared", &q1, &p1s);
        mixed!("view/shared", &q1.view(), &p1s);
    }};
}
macro_rules! fast_all_dims {
    ($checks:expr, $E:ty) => {
        fast1d!($checks, $E, Ix1, vec![3], "Ix1");
        fast1d!($checks, $E, Ix2, vec![3, 2], "Ix2");
        fast1d!($checks, $E, Ix2, vec![9, 3], "Ix2-9x3");
        fast1d!($checks, $E, Ix3, vec![3, 2, 2], "Ix3");
        fast1d!($checks, $E, Ix4, vec![3, 2, 1, 2], "Ix4");
        fast1d!($checks, $E, Ix5, vec![3, 2, 1, 2, 1], "Ix5");
        fast1d!($checks, $E, Ix6, vec![3, 1, 2, 1, 1, 2], "Ix6");
        fast1d!($checks, $E, IxDyn, vec![3, 2, 2], "IxDyn3");
        fast1d!($checks, $E, IxDyn, vec![3], "IxDyn1");
        fast2d!($checks, $E, Ix2, vec![3, 2], "Ix2");
        fast2d!($checks, $E, Ix3, vec![3, 2, 2], "Ix3");
        fast2d!($checks, $E, Ix4, vec![3, 2, 1, 2], "Ix4");
        fast2d!($checks, $E, Ix5, vec![3, 2, 1, 2, 1], "Ix5");
        fast2d!($checks, $E, Ix6, vec![3, 2, 2, 1, 1, 2], "Ix6");
        fast2d!($checks, $E, IxDyn, vec![3, 2, 2], "IxDyn3");
        fast2d!($checks, $E, IxDyn, vec![3, 2], "IxDyn2");
    };
}
pub fn fastpath(args: &[String], checks: &mut Vec<Check>) {
    match str_arg(args, "elem", "f64") {
        "f64" => { fast_all_dims!(checks, f64); }
        "f32" => { fast_all_dims!(checks, f32); }
        "i32" => { fast_all_dims!(checks, i32); }
        "i64" => { fast_all_dims!(checks, i64); }
        other => panic!("unknown element type {other}"),
    }
}

// ------------------------------------------------------------------------------------------------
// C10: bounded decision table through the public API (f64)
// ------------------------------------------------------------------------------------------------
fn kind(e: &BuilderError) -> &'static str {
    match e { BuilderError::NotEnoughData(_) => "NotEnoughData", BuilderError::Monotonic(_) => "Monotonic", BuilderError::ShapeError(_) => "ShapeError", BuilderError::ValueError(_) => "ValueError" }
}
fn axis_patterns(n: usize) -> Vec<(String, Vec<f64>, bool)> {
    // (name, values, strictly increasing?)
    let inc: Vec<f64> = (0..n).map(|i| i as f64 * 1.5 - 1.0).collect();
    let mut out = vec![("increasing".to_string(), inc.clone(), n >= 2)];
    for k in 0..n.saturating_sub(1) {
        let mut t = inc.clone(); t[k + 1] = t[k]; out.push((format!("tie@{k}"), t, false));
        let mut s = inc.clone(); s.swap(k, k + 1); out.push((format!("swap@{k}"), s, false));
    }
    for k in 0..n { let mut t = inc.clone(); t[k] = f64::NAN; out.push((format!("nan@{k}"), t, false)); }
    if n >= 2 { let mut d = inc.clone(); d.reverse(); out.push(("decreasing".to_string(), d, false)); }
    out
}
pub fn builder_table(_args: &[String], checks: &mut Vec<Check>) {
    // ---- 1-D, Linear (min 2) and CubicSpline (min 3): length x axis length x order pattern
    for (sname, min) in [("linear", 2usize), ("spline", 3usize)] {
        for len in 0..min + 3 {
            for dx in [-1i64, 0, 1] {
                let xlen = len as i64 + dx;
                if xlen < 0 { continue; }
                for (pname, xs, rising) in axis_patterns(xlen as usize) {
                    let data = Array1::from((0..len).map(|i| (i * i) as f64 * 0.5).collect::<Vec<_>>());
                    let x = Array1::from(xs.clone());
                    let r = catch_unwind(AssertUnwindSafe(|| -> Result<(), BuilderError> {
                        if sname == "linear" { Interp1DBuilder::new(data.clone()).x(x.clone()).build().map(|_| ()) }
                        else { Interp1DBuilder::new(data.clone()).x(x.clone()).strategy(CubicSpline::new()).build().map(|_| ()) }
                    }));
                    let valid = len >= min && xlen as usize == len && rising;
                    let mut violated = vec![];
                    if len < min { violated.push("NotEnoughData"); }
                    if xlen as usize != len { violated.push("ShapeError"); }
                    if !rising { violated.push("Monotonic"); }
                    let name = format!("C10:table1d[{sname},len={len},xlen={xlen},{pname}]");
                    match r {
                        Err(_) => ck(checks, name, false, "panic".into()),
                        Ok(Ok(())) => ck(checks, name, valid, format!("accepted; violated={violated:?}")),
                        Ok(Err(e)) => ck(checks, name, !valid && violated.contains(&kind(&e)), format!("Err({}) violated={violated:?}", kind(&e))),
                    }
                }
            }
        }
    }
    // ---- long axes: a defect at any position (first pair, middle, last pair) must be found
    for len in [9usize, 17, 40] {
        let inc: Vec<f64> = (0..len).map(|i| (i as f64) * 0.75 - 3.0).collect();
        let mut cases: Vec<(String, Vec<f64>, bool)> = vec![("increasing".into(), inc.clone(), true)];
        for k in 0..len - 1 {
            let mut t = inc.clone(); t[k + 1] = t[k]; cases.push((format!("tie@{k}"), t, false));
            let mut s2 = inc.clone(); s2.swap(k, k + 1); cases.push((format!("swap@{k}"), s2, false));
        }
        for k in 0..len { let mut t = inc.clone(); t[k] = f64::NAN; cases.push((format!("nan@{k}"), t, false)); }
        for (pname, xs, rising) in cases {
            let data = Array1::from((0..len).map(|i| (i % 5) as f64).collect::<Vec<_>>());
            let r = catch_unwind(AssertUnwindSafe(|| Interp1DBuilder::new(data.clone()).x(Array1::from(xs.clone())).strategy(CubicSpline::new()).build().map(|_| ())));
            let name = format!("C10:table1d[long axis,len={len},{pname}]");
            match r {
                Err(_) => ck(checks, name, false, "panic".into()),
                Ok(Ok(())) => ck(checks, name, rising, "accepted".into()),
                Ok(Err(e)) => ck(checks, name, !rising && kind(&e) == "Monotonic", format!("Err({})", kind(&e))),
            }
        }
    }
    // ---- the same decision for axes given as reversed-stride views (memory order is the reverse of the logical order)
    for len in 2..6usize {
        for (pname, xs, rising) in axis_patterns(len) {
            let data = Array1::from((0..len).map(|i| i as f64).collect::<Vec<_>>());
            let mut xr = Array1::from(xs.iter().rev().copied().collect::<Vec<_>>());
            xr.invert_axis(Axis(0));
            let r = catch_unwind(AssertUnwindSafe(|| Interp1DBuilder::new(data.clone()).x(xr.clone()).build().map(|_| ())));
            let name = format!("C10:table1d[reversed-stride axis,len={len},{pname}]");
            match r {
                Err(_) => ck(checks, name, false, "panic".into()),
                Ok(Ok(())) => ck(checks, name, rising, "accepted".into()),
                Ok(Err(e)) => ck(checks, name, !rising && kind(&e) == "Monotonic", format!("Err({})", kind(&e))),
            }
            let d2 = Array2::<f64>::from_shape_fn((len, 2), |(i, j)| (i + j) as f64);
            let r = catch_unwind(AssertUnwindSafe(|| Interp2DBuilder::new(d2.clone()).x(xr.clone()).build().map(|_| ())));
            let name = format!("C10:table2d[reversed-stride x axis,len={len},{pname}]");
            match r {
                Err(_) => ck(checks, name, false, "panic".into()),
                Ok(Ok(())) => ck(checks, name, rising, "accepted".into()),
                Ok(Err(e)) => ck(checks, name, !rising && kind(&e) == "Monotonic", format!("Err({})", kind(&e))),
            }
        }
    }
    // ---- data rank too small (dynamic), constructors must not panic
    for (nm, sh) in [("0-d", vec![]), ("1-d", vec![3usize])] {
        let r = catch_unwind(AssertUnwindSafe(|| Interp1DBuilder::new(ArrayD::<f64>::zeros(IxDyn(&sh))).build().map(|_| ())));
        let name = format!("C10:rank1d[dyn {nm}]");
        match r {
            Err(_) => ck(checks, name, false, "panic in constructor/build".into()),
            Ok(Ok(())) => ck(checks, name, !sh.is_empty(), "accepted".into()),
            Ok(Err(e)) => ck(checks, name, sh.is_empty() && kind(&e) == "ShapeError", format!("Err({})", kind(&e))),
        }
    }
    let r = catch_unwind(AssertUnwindSafe(|| { let _b = Interp1DBuilder::new(arr0(1.0f64)); }));
    ck(checks, "C10:constructor1d[Ix0]".into(), r.is_ok(), "Interp1DBuilder::new on 0-d data must not panic".into());
    let r = catch_unwind(AssertUnwindSafe(|| { let _b = Interp2DBuilder::new(Array1::<f64>::zeros(3)); }));
    ck(checks, "C10:constructor2d[Ix1]".into(), r.is_ok(), "Interp2DBuilder::new on 1-d data must not panic".into());
    for (nm, sh) in [("0-d", vec![]), ("1-d", vec![3usize]), ("2-d", vec![3usize, 2])] {
        let r = catch_unwind(AssertUnwindSafe(|| Interp2DBuilder::new(ArrayD::<f64>::zeros(IxDyn(&sh))).build().map(|_| ())));
        let name = format!("C10:rank2d[dyn {nm}]");
        match r {
            Err(_) => ck(checks, name, false, "panic in constructor/build".into()),
            Ok(Ok(())) => ck(checks, name, sh.len() >= 2, "accepted".into()),
            Ok(Err(e)) => ck(checks, name, sh.len() < 2 && kind(&e) == "ShapeError", format!("Err({})", kind(&e))),
        }
    }
    // ---- 2-D: x and y independently
    for (nx, ny) in [(1usize, 3usize), (2, 2), (3, 2), (2, 1), (3, 3)] {
        for dxl in [-1i64, 0, 1] { for dyl in [-1i64, 0, 1] {
            let (xl, yl) = (nx as i64 + dxl, ny as i64 + dyl);
            if xl < 0 || yl < 0 { continue; }
            for (pxn, xs, xr) in axis_patterns(xl as usize).into_iter().take(4) {
                for (pyn, ys, yr) in axis_patterns(yl as usize).into_iter().take(4) {
                    let data = Array2::<f64>::from_shape_fn((nx, ny), |(i, j)| (i * 3 + j) as f64);
                    let r = catch_unwind(AssertUnwindSafe(|| Interp2DBuilder::new(data.clone()).x(Array1::from(xs.clone())).y(Array1::from(ys.clone())).build().map(|_| ())));
                    let valid = nx >= 2 && ny >= 2 && xl as usize == nx && yl as usize == ny && xr && yr;
                    let mut violated = vec![];
                    if nx < 2 || ny < 2 { violated.push("NotEnoughData"); }
                    if xl as usize != nx || yl as usize != ny { violated.push("ShapeError"); }
                    if !xr || !yr { violated.push("Monotonic"); }
                    let name = format!("C10:table2d[{nx}x{ny},xlen={xl},ylen={yl},x:{pxn},y:{pyn}]");
                    match r {
                        Err(_) => ck(checks, name, false, "panic".into()),
                        Ok(Ok(())) => ck(checks, name, valid, format!("accepted; violated={violated:?}")),
                        Ok(Err(e)) => ck(checks, name, !valid && violated.contains(&kind(&e)), format!("Err({}) violated={violated:?}", kind(&e))),
                    }
                }
            }
        } }
    }
    // ---- strategy level: per-lane boundary array shape, periodic equal ends
    let x = Array1::from(vec![0.0, 1.0, 2.5, 3.0]);
    let data2 = Array2::<f64>::from_shape_fn((4, 3), |(i, j)| (i * i + j) as f64);
    for (nm, bshape, ok) in [("ok", vec![1usize, 3], true), ("wrong-leading", vec![2, 3], false), ("wrong-leading-4", vec![4, 3], false), ("wrong-trailing", vec![1, 2], false), ("wrong-trailing+", vec![1, 4], false), ("transposed", vec![3, 1], false)] {
        let b: Array2<RowBoundary<f64>> = Array2::from_elem((bshape[0], bshape[1]), RowBoundary::Natural);
        let r = catch_unwind(AssertUnwindSafe(|| Interp1DBuilder::new(data2.clone()).x(x.clone()).strategy(CubicSpline::new().boundary(BoundaryCondition::Individual(b.clone()))).build().map(|_| ())));
        let name = format!("C10:boundary-shape[{nm}]");
        match r {
            Err(_) => ck(checks, name, false, "panic".into()),
            Ok(Ok(())) => ck(checks, name, ok, "accepted".into()),
            Ok(Err(e)) => ck(checks, name, !ok && kind(&e) == "ShapeError", format!("Err({})", kind(&e))),
        }
    }
    for (nm, bshape, ok) in [("dyn-ok", vec![1usize, 3], true), ("dyn-wrong-rank-0", vec![], false), ("dyn-wrong-rank-1", vec![3], false), ("dyn-wrong-rank-1b", vec![1], false), ("dyn-wrong-rank-3", vec![1, 3, 1], false), ("dyn-wrong-leading", vec![4, 3], false)] {
        let b: ArrayD<RowBoundary<f64>> = ArrayD::from_elem(IxDyn(&bshape), RowBoundary::Clamped);
        let r = catch_unwind(AssertUnwindSafe(|| Interp1DBuilder::new(data2.clone().into_dyn()).x(x.clone()).strategy(CubicSpline::new().boundary(BoundaryCondition::Individual(b.clone()))).build().map(|_| ())));
        let name = format!("C10:boundary-shape[{nm}]");
        match r {
            Err(_) => ck(checks, name, false, "panic".into()),
            Ok(Ok(())) => ck(checks, name, ok, "accepted".into()),
            Ok(Err(e)) => ck(checks, name, !ok && kind(&e) == "ShapeError", format!("Err({})", kind(&e))),
        }
    }
    // data of rank 3 and data with ZERO-LENGTH trailing axes (no lane at all): the per-lane array must still have shape (1, trailing dims)
    for dshape in [vec![4usize, 2, 3], vec![4, 0], vec![4, 0, 2], vec![4, 2, 0], vec![4, 1, 1]] {
        let dd: ArrayD<f64> = ArrayD::from_shape_fn(IxDyn(&dshape), |ix| (ix[0] * ix[0]) as f64 + ix.slice().iter().sum::<usize>() as f64);
        let mut good = dshape.clone(); good[0] = 1;
        let mut cases: Vec<(String, Vec<usize>, bool)> = vec![("ok".into(), good.clone(), true)];
        let mut w = good.clone(); w[0] = 2; cases.push(("wrong-leading".into(), w, false));
        let mut w = good.clone(); w[0] = dshape[0]; cases.push(("leading-like-data".into(), w, false));
        let mut w = good.clone(); let l = w.len() - 1; w[l] += 1; cases.push(("last-axis+1".into(), w, false));
        let mut w = good.clone(); w[1] += 2; cases.push(("first-trailing+2".into(), w, false));
        if good.len() == 3 && good[1] != good[2] { let mut w = good.clone(); w.swap(1, 2); cases.push(("trailing-swapped".into(), w, false)); }
        cases.push(("rank-1".into(), good[..good.len() - 1].to_vec(), false));
        let mut w = good.clone(); w.push(1); cases.push(("rank+1".into(), w, false));
        for (nm, bshape, ok) in cases {
            let b: ArrayD<RowBoundary<f64>> = ArrayD::from_elem(IxDyn(&bshape), RowBoundary::Natural);
            let r = catch_unwind(AssertUnwindSafe(|| Interp1DBuilder::new(dd.clone()).x(x.clone()).strategy(CubicSpline::new().boundary(BoundaryCondition::Individual(b.clone()))).build().map(|_| ())));
            let name = format!("C10:boundary-shape[data={dshape:?},{nm}]");
            match r {
                Err(_) => ck(checks, name, false, "panic".into()),
                Ok(Ok(())) => ck(checks, name, ok, "accepted".into()),
                Ok(Err(e)) => ck(checks, name, !ok && kind(&e) == "ShapeError", format!("Err({})", kind(&e))),
            }
        }
    }
    for n in [3usize, 4, 5] {
        for lane_bad in [None, Some(0usize), Some(1), Some(2)] {
            let xs = Array1::from((0..n).map(|i| i as f64 * 1.25).collect::<Vec<_>>());
            let mut d = Array2::<f64>::from_shape_fn((n, 3), |(i, j)| ((i * 5 + j * 3) % 7) as f64);
            for j in 0..3 { let v = d[[0, j]]; d[[n - 1, j]] = v; }
            if let Some(l) = lane_bad { d[[n - 1, l]] += if n % 2 == 0 { 0.5 } else { 0.0 }; if n % 2 == 1 { let v = d[[n - 1, l]]; d[[n - 1, l]] = f64::from_bits(v.to_bits() + 1); } }
            let r = catch_unwind(AssertUnwindSafe(|| Interp1DBuilder::new(d.clone()).x(xs.clone()).strategy(CubicSpline::new().boundary(BoundaryCondition::Periodic)).build().map(|_| ())));
            let name = format!("C10:periodic-ends[n={n},unequal-lane={lane_bad:?}]");
            match r {
                Err(_) => ck(checks, name, false, "panic".into()),
                Ok(Ok(())) => ck(checks, name, lane_bad.is_none(), "accepted".into()),
                Ok(Err(e)) => ck(checks, name, lane_bad.is_some() && kind(&e) == "ValueError", format!("Err({})", kind(&e))),
            }
        }
        // 1-D data
        for bad in [false, true] {
            let xs = Array1::from((0..n).map(|i| i as f64 * 1.25).collect::<Vec<_>>());
            let mut d = Array1::<f64>::from_shape_fn(n, |i| ((i * 5) % 7) as f64);
            d[n - 1] = d[0] + if bad { 0.25 } else { 0.0 };
            let r = catch_unwind(AssertUnwindSafe(|| Interp1DBuilder::new(d.clone()).x(xs.clone()).strategy(CubicSpline::new().boundary(BoundaryCondition::Periodic)).build().map(|_| ())));
            let name = format!("C10:periodic-ends[n={n},1-d,unequal={bad}]");
            match r {
                Err(_) => ck(checks, name, false, "panic".into()),
                Ok(Ok(())) => ck(checks, name, !bad, "accepted".into()),
                Ok(Err(e)) => ck(checks, name, bad && kind(&e) == "ValueError", format!("Err({})", kind(&e))),
            }
        }
    }
    // ---- C18: a custom strategy builder is only invoked with validated input, for declared minimum 0, 2, 4
    macro_rules! rec_table { ($MIN:expr) => {{
        for len in 0..($MIN + 3usize) { for dx in [-1i64, 0, 1] {
            let xlen = len as i64 + dx; if xlen < 0 { continue; }
            for (pname, xs, rising) in axis_patterns(xlen as usize) {
                reset();
                BUILD_LOG.with(|l| l.borrow_mut().clear());
                let data: Array1<Sym> = Array1::from((0..len).map(|i| var(&format!("d{i}"), i as f64)).collect::<Vec<_>>());
                let x: Array1<Sym> = Array1::from(xs.iter().enumerate().map(|(i, v)| var(&format!("x{i}"), *v)).collect::<Vec<_>>());
                let r = catch_unwind(AssertUnwindSafe(|| Interp1DBuilder::new(data).x(x).strategy(Rec::<$MIN>).build().map(|_| ())));
                let log = BUILD_LOG.with(|l| l.borrow().clone());
                let valid = len >= $MIN && xlen as usize == len && rising;
                let invoked = !log.is_empty();
                let guarantees = log.iter().all(|l| l.contains("guarantees_hold=true"));
                ck(checks, format!("C18:builder-invoked-only-when-valid[min={},len={len},xlen={xlen},{pname}]", $MIN), matches!(r, Ok(_)) && invoked == valid && guarantees, format!("invoked={invoked} valid={valid} log={log:?}"));
            }
        } }
        // build error of the strategy reaches the caller unchanged
        reset();
        FAIL_BUILD.with(|f| f.set(true));
        let data: Array1<Sym> = Array1::from((0..6).map(|i| var(&format!("d{i}"), i as f64)).collect::<Vec<_>>());
        let r = Interp1DBuilder::new(data).strategy(Rec::<$MIN>).build();
        FAIL_BUILD.with(|f| f.set(false));
        ck(checks, format!("C18:build-error-passthrough[min={}]", $MIN), matches!(&r, Err(BuilderError::ValueError(m)) if m == "injected-build-error"), String::new());
    }}; }
    // default index axis (no `.x(..)`): the builder may only be invoked when there are at least two points
    macro_rules! rec_default_axis { ($MIN:expr) => {{
        for len in 0..4usize {
            reset();
            BUILD_LOG.with(|l| l.borrow_mut().clear());
            let data: Array1<Sym> = Array1::from((0..len).map(|i| var(&format!("d{i}"), i as f64)).collect::<Vec<_>>());
            let r = catch_unwind(AssertUnwindSafe(|| Interp1DBuilder::new(data).strategy(Rec::<$MIN>).build().map(|_| ())));
            let log = BUILD_LOG.with(|l| l.borrow().clone());
            let valid = len >= $MIN && len >= 2;
            ck(checks, format!("C18:builder-invoked-only-when-valid[default axis,min={},len={len}]", $MIN), matches!(r, Ok(_)) && (!log.is_empty()) == valid && log.iter().all(|l| l.contains("guarantees_hold=true")), format!("log={log:?}"));
        }
    }}; }
    rec_default_axis!(0);
    rec_default_axis!(2);
    rec_table!(0);
    rec_table!(2);
    rec_table!(4);
}
// ------------------------------------------------------------------------------------------------
// C08: lane j of n-dimensional data == the interpolator built from lane j alone (same nodes)
// ------------------------------------------------------------------------------------------------
pub fn lane_alone(args: &[String], checks: &mut Vec<Check>) {
    let n: usize = str_arg(args, "n", "4").parse().unwrap();
    let tshape = shape_arg(args, "lanes");
    let lanes: usize = tshape.iter().product();
    let strat = str_arg(args, "strat", "linear");
    let x = axis("x", n, 3);
    let mut dshape = vec![n]; dshape.extend(&tshape);
    let flat: Vec<Sym> = (0..n).flat_map(|i| (0..lanes).map(move |l| (i, l))).map(|(i, l)| var(&format!("y{i}_{l}"), ((i * 7 + l * 3) % 11) as f64 * 0.5 - 1.0)).collect();
    let data = ArrayD::from_shape_vec(IxDyn(&dshape), flat.clone()).unwrap();
    let qs: Vec<Sym> = (0..n - 1).map(|i| var(&format!("q{i}"), shadow(x[i]) + 0.3 * (shadow(x[i + 1]) - shadow(x[i])))).collect();
    let specs: Vec<&str> = match str_arg(args, "bcset", "varied") {
        "mixed" => vec!["Mixed:FirstDeriv:SecondDeriv", "Mixed:FirstDeriv:SecondDeriv", "Mixed:NotAKnot:FirstDeriv", "Mixed:SecondDeriv:Natural", "Mixed:Clamped:NotAKnot", "Mixed:FirstDeriv:FirstDeriv"],
        "samekind" => vec!["Clamped", "Clamped", "Natural", "Natural"],
        // constant along the LAST trailing axis, varying along the others (filled below per lane)
        "rows" => vec!["Natural", "Mixed:NotAKnot:FirstDeriv", "Mixed:SecondDeriv:Clamped", "NotAKnot"],
        _ => vec!["Natural", "Mixed:NotAKnot:FirstDeriv", "Mixed:SecondDeriv:Clamped", "NotAKnot", "Mixed:FirstDeriv:SecondDeriv", "Clamped"],
    };
    let tag = format!("[{strat},n={n},lanes={},bc={}]", str_arg(args, "lanes", ""), str_arg(args, "bcset", "varied"));
    if lanes == 0 {
        // zero-length trailing axis: must not panic, result is empty
        let r = catch_unwind(AssertUnwindSafe(|| {
            let it = Interp1DBuilder::new(data.clone()).x(x.clone()).strategy(Linear::new()).build().unwrap();
            it.interp(qs[0]).map(|a| a.len())
        }));
        ck(checks, format!("C08:zero-length-trailing-axis{tag}"), matches!(r, Ok(Ok(0))), format!("{:?}", r.map(|x| x.is_ok())));
        return;
    }
    macro_rules! compare { ($multi:expr, $single:expr) => {{
        let mut ok = true; let mut detail = String::new();
        for (qi, q) in qs.iter().enumerate() {
            let m = $multi.interp(*q).unwrap();
            let mids: Vec<u32> = m.iter().map(|s| s.0).collect();
            for l in 0..lanes {
                let s = $single(l).interp_scalar(*q).unwrap();
                if s.0 != mids[l] { ok = false; detail = format!("lane {l}, query {qi}"); }
            }
        }
        (ok, detail)
    }}; }
    let col = |l: usize| -> Array1<Sym> { Array1::from((0..n).map(|i| flat[i * lanes + l]).collect::<Vec<_>>()) };
    match strat {
        "linear" => {
            let multi = Interp1DBuilder::new(data.clone()).x(x.clone()).strategy(Linear::new().extrapolate(true)).build().unwrap();
            let (ok, d) = compare!(multi, |l: usize| Interp1DBuilder::new(col(l)).x(x.clone()).strategy(Linear::new().extrapolate(true)).build().unwrap());
            ck(checks, format!("C08:lane-alone{tag}"), ok, d);
        }
        "spline" => {
            let mut bshape = dshape.clone(); bshape[0] = 1;
            let last = *tshape.last().unwrap_or(&1);
            let spec_of = |l: usize| -> &str { if str_arg(args, "bcset", "varied") == "rows" { specs[(l / last.max(1)) % specs.len()] } else { specs[l % specs.len()] } };
            let rows: Vec<RowBoundary<Sym>> = (0..lanes).map(|l| row_boundary(spec_of(l), l)).collect();
            let mut b = ArrayD::from_shape_vec(IxDyn(&bshape), rows).unwrap();
            if str_arg(args, "blayout", "c") == "f" {
                let mut f = ArrayD::from_elem(IxDyn(&bshape).f(), RowBoundary::NotAKnot);
                f.assign(&b);
                b = f;
            }
            let multi = Interp1DBuilder::new(data.clone()).x(x.clone()).strategy(CubicSpline::new().boundary(BoundaryCondition::Individual(b)).extrapolate(true)).build().unwrap();
            let (ok, d) = compare!(multi, |l: usize| {
                let b1 = Array1::from(vec![row_boundary(spec_of(l), l)]);
                Interp1DBuilder::new(col(l)).x(x.clone()).strategy(CubicSpline::new().boundary(BoundaryCondition::Individual(b1)).extrapolate(true)).build().unwrap()
            });
            ck(checks, format!("C08:lane-alone{tag}"), ok, d);
        }
        "bilinear" => {
            // data (n, 3, lanes...): 2-D interpolation over the first two axes
            let ny = 3usize;
            let y = axis("y", ny, 5);
            let mut ds = vec![n, ny]; ds.extend(&tshape);
            let flat2: Vec<Sym> = (0..n * ny).flat_map(|c| (0..lanes).map(move |l| (c, l))).map(|(c, l)| var(&format!("z{c}_{l}"), ((c * 5 + l * 3) % 13) as f64 * 0.25)).collect();
            let d2 = ArrayD::from_shape_vec(IxDyn(&ds), flat2.clone()).unwrap();
            let multi = Interp2DBuilder::new(d2).x(x.clone()).y(y.clone()).strategy(Bilinear::new().extrapolate(true)).build().unwrap();
            let qy = var("qy", shadow(y[0]) + 0.4);
            let mut ok = true; let mut detail = String::new();
            for q in qs.iter() {
                let m = multi.interp(*q, qy).unwrap();
                let mids: Vec<u32> = m.iter().map(|s| s.0).collect();
                for l in 0..lanes {
                    let single: Array2<Sym> = Array2::from_shape_fn((n, ny), |(i, k)| flat2[(i * ny + k) * lanes + l]);
                    let it = Interp2DBuilder::new(single).x(x.clone()).y(y.clone()).strategy(Bilinear::new().extrapolate(true)).build().unwrap();
                    if it.interp_scalar(*q, qy).unwrap().0 != mids[l] { ok = false; detail = format!("lane {l}"); }
                }
            }
            ck(checks, format!("C08:lane-alone{tag}"), ok, detail);
        }
        other => panic!("unknown strategy {other}"),
    }
}

#[allow(dead_code)]
fn _u(_: Ix0, _: Ix5, _: Ix6) {}

// ------------------------------------------------------------------------------------------------
// C13: memory layout / ownership of data and axes does not change any result (node identity)
// ------------------------------------------------------------------------------------------------
fn reversed_strides<D: Dimension>(a: &Array<Sym, D>, axes: &[usize]) -> Array<Sym, D> {
    // same logical contents, negative strides along `axes`
    let mut r = a.clone();
    for &ax in axes { r.invert_axis(Axis(ax)); }
    let mut std = Array::from_elem(a.raw_dim(), konst_frac(0, 1));
    std.assign(&r);
    for &ax in axes { std.invert_axis(Axis(ax)); }
    std
}
fn permuted_memory(a: &ArrayD<Sym>) -> ArrayD<Sym> {
    // trailing axes stored in reversed order in memory, logical shape unchanged (contiguous, non-standard)
    let nd = a.ndim();
    if nd < 3 { return a.clone(); }
    let mut perm: Vec<usize> = (0..nd).collect();
    perm[1..].reverse();
    let p = a.clone().permuted_axes(IxDyn(&perm));          // logical permuted view
    let mut std = ArrayD::from_elem(p.raw_dim(), konst_frac(0, 1));
    std.assign(&p);                                           // standard layout in the permuted order
    let mut inv = vec![0usize; nd];
    for (i, &pi) in perm.iter().enumerate() { inv[pi] = i; }
    std.permuted_axes(IxDyn(&inv))                            // logical shape restored, memory order permuted
}
fn strided_big(a: &ArrayD<Sym>) -> ArrayD<Sym> {
    let big_shape: Vec<usize> = a.shape().iter().map(|s| s * 2 + 1).collect();
    let mut big = ArrayD::from_elem(IxDyn(&big_shape), var("POISON", 777.0));
    {
        let mut v = big.view_mut();
        for ax in 0..a.ndim() { v.slice_axis_inplace(Axis(ax), ndarray::Slice::new(1, None, 2)); }
        v.assign(a);
    }
    big
}
pub fn layouts(args: &[String], checks: &mut Vec<Check>) {
    let n: usize = str_arg(args, "n", "6").parse().unwrap();
    let tshape = shape_arg(args, "lanes");
    let strat = str_arg(args, "strat", "linear");
    let tag = format!("[{strat},n={n},lanes={}]", str_arg(args, "lanes", ""));
    let x = axis("x", n, 3);
    let xs: Vec<f64> = x.iter().map(|s| shadow(*s)).collect();
    let mut qv: Vec<Sym> = (0..n - 1).map(|i| var(&format!("q{i}"), xs[i] + 0.3125 * (xs[i + 1] - xs[i]))).collect();
    qv.push(var("qk", xs[n / 2]));   // exactly on a knot
    let qarr = Array1::from(qv.clone());
    if strat == "bilinear" {
        let ny = 5usize;
        let y = axis("y", ny, 6);
        let qy = var("qy", shadow(y[1]) + 0.4 * (shadow(y[2]) - shadow(y[1])));
        let mut ds = vec![n, ny]; ds.extend(&tshape);
        let data = sym_array("z", &ds, -2.0, 3.0);
        let run = |d: ArrayD<Sym>, xa: Array1<Sym>, ya: Array1<Sym>| -> Vec<u32> {
            let it = Interp2DBuilder::new(d).x(xa).y(ya).strategy(Bilinear::new().extrapolate(true)).build().unwrap();
            let mut out = vec![];
            for q in qv.iter() { out.extend(it.interp(*q, qy).unwrap().iter().map(|s| s.0)); }
            out
        };
        let base = run(data.clone(), x.clone(), y.clone());
        let mut f = ArrayD::from_elem(data.raw_dim().f(), konst_frac(0, 1)); f.assign(&data);
        ck(checks, format!("C13:data-f-order{tag}"), catch_unwind(AssertUnwindSafe(|| run(f.clone(), x.clone(), y.clone()))).map(|r| r == base).unwrap_or(false), String::new());
        ck(checks, format!("C13:data-permuted-memory{tag}"), catch_unwind(AssertUnwindSafe(|| run(permuted_memory(&data), x.clone(), y.clone()))).map(|r| r == base).unwrap_or(false), String::new());
        let all: Vec<usize> = (0..data.ndim()).collect();
        ck(checks, format!("C13:data-reversed-strides{tag}"), catch_unwind(AssertUnwindSafe(|| run(reversed_strides(&data, &all), x.clone(), y.clone()))).map(|r| r == base).unwrap_or(false), String::new());
        ck(checks, format!("C13:x-axis-reversed-strides{tag}"), catch_unwind(AssertUnwindSafe(|| run(data.clone(), reversed_strides(&x, &[0]), y.clone()))).map(|r| r == base).unwrap_or(false), String::new());
        ck(checks, format!("C13:y-axis-reversed-strides{tag}"), catch_unwind(AssertUnwindSafe(|| run(data.clone(), x.clone(), reversed_strides(&y, &[0])))).map(|r| r == base).unwrap_or(false), String::new());
        // views of strided holders
        let big = strided_big(&data);
        let r = catch_unwind(AssertUnwindSafe(|| {
            let mut v = big.view();
            for ax in 0..v.ndim() { v.slice_axis_inplace(Axis(ax), ndarray::Slice::new(1, None, 2)); }
            let it = Interp2DBuilder::new(v).x(x.view()).y(y.view()).strategy(Bilinear::new().extrapolate(true)).build().unwrap();
            let mut out = vec![];
            for q in qv.iter() { out.extend(it.interp(*q, qy).unwrap().iter().map(|s| s.0)); }
            out
        }));
        ck(checks, format!("C13:data-strided-view-axes-views{tag}"), r.map(|r| r == base).unwrap_or(false), String::new());
        return;
    }
    let mut ds = vec![n]; ds.extend(&tshape);
    let data = sym_array("y", &ds, -2.0, 3.0);
    // single-point results written into F-order, reversed-stride and permuted-memory caller buffers
    macro_rules! into_bufs { ($it:expr, $out:expr) => {{
        if let Some(q) = qv.first() {
            let r = $it.interp(*q).unwrap();
            let mut fb = ArrayD::from_elem(r.raw_dim().f(), konst_frac(0, 1));
            $it.interp_into(*q, fb.view_mut()).unwrap();
            $out.extend(fb.iter().map(|s| s.0));
            let all: Vec<usize> = (0..r.ndim()).collect();
            let mut rb = reversed_strides(&ArrayD::from_elem(r.raw_dim(), konst_frac(0, 1)), &all);
            $it.interp_into(*q, rb.view_mut()).unwrap();
            $out.extend(rb.iter().map(|s| s.0));
            let mut pb = permuted_memory(&ArrayD::from_elem(IxDyn(&[&[1usize][..], r.shape()].concat()), konst_frac(0, 1)));
            $it.interp_into(*q, pb.index_axis_mut(Axis(0), 0)).unwrap();
            $out.extend(pb.iter().map(|s| s.0));
        }
    }}; }
    macro_rules! run_with { ($d:expr, $xa:expr) => {{
        let d = $d; let xa = $xa;
        catch_unwind(AssertUnwindSafe(|| -> Vec<u32> {
            let mut out = vec![];
            if strat == "linear" {
                let it = Interp1DBuilder::new(d).x(xa).strategy(Linear::new().extrapolate(true)).build().unwrap();
                for q in qv.iter() { out.extend(it.interp(*q).unwrap().iter().map(|s| s.0)); }
                into_bufs!(it, out);
                out.extend(it.interp_array(&qarr).unwrap().iter().map(|s| s.0));
            } else {
                let it = Interp1DBuilder::new(d).x(xa).strategy(CubicSpline::new().extrapolate(true)).build().unwrap();
                for q in qv.iter() { out.extend(it.interp(*q).unwrap().iter().map(|s| s.0)); }
                out.extend(it.interp_array(&qarr).unwrap().iter().map(|s| s.0));
            }
            out
        }))
    }}; }
    let base = match run_with!(data.clone(), x.clone()) { Ok(b) => b, Err(_) => { ck(checks, format!("C13:baseline{tag}"), false, "panic".into()); return; } };
    let mut f = ArrayD::from_elem(data.raw_dim().f(), konst_frac(0, 1)); f.assign(&data);
    let all: Vec<usize> = (0..data.ndim()).collect();
    let lane_axes: Vec<usize> = (1..data.ndim()).collect();
    ck(checks, format!("C13:data-f-order{tag}"), run_with!(f.clone(), x.clone()).map(|r| r == base).unwrap_or(false), String::new());
    ck(checks, format!("C13:data-permuted-memory{tag}"), run_with!(permuted_memory(&data), x.clone()).map(|r| r == base).unwrap_or(false), String::new());
    ck(checks, format!("C13:data-reversed-strides-all-axes{tag}"), run_with!(reversed_strides(&data, &all), x.clone()).map(|r| r == base).unwrap_or(false), String::new());
    ck(checks, format!("C13:data-reversed-lane-axes{tag}"), run_with!(reversed_strides(&data, &lane_axes), x.clone()).map(|r| r == base).unwrap_or(false), String::new());
    ck(checks, format!("C13:data-reversed-first-axis{tag}"), run_with!(reversed_strides(&data, &[0]), x.clone()).map(|r| r == base).unwrap_or(false), String::new());
    ck(checks, format!("C13:axis-reversed-strides{tag}"), run_with!(data.clone(), reversed_strides(&x, &[0])).map(|r| r == base).unwrap_or(false), String::new());
    ck(checks, format!("C13:data-shared-storage{tag}"), run_with!(data.clone().into_shared(), x.clone().into_shared()).map(|r| r == base).unwrap_or(false), String::new());
    // data rows AND the caller's buffer share the same unusual (contiguous, non-standard) layout: a fast path keyed on "same strides"
    // must still pair every lane with its own coefficients (interp_into and the rank-1 interp_array_into)
    {
        let nq = qarr.len();
        let lane_axes2 = lane_axes.clone();
        let variants: Vec<(&str, Box<dyn Fn(&ArrayD<Sym>) -> ArrayD<Sym>>)> = vec![
            ("permuted-memory", Box::new(|a: &ArrayD<Sym>| permuted_memory(a))),
            ("reversed-lane-axes", Box::new(move |a: &ArrayD<Sym>| reversed_strides(a, &lane_axes2))),
        ];
        for (lname, f_) in variants.iter() {
            let r = catch_unwind(AssertUnwindSafe(|| -> bool {
                let d = f_(&data);
                let rowshape: Vec<usize> = [&[1usize][..], &ds[1..]].concat();
                let mut one = f_(&ArrayD::from_elem(IxDyn(&rowshape), konst_frac(0, 1)));
                let bigshape: Vec<usize> = [&[nq][..], &ds[1..]].concat();
                let mut many = f_(&ArrayD::from_elem(IxDyn(&bigshape), konst_frac(0, 1)));
                let mut ok = true;
                macro_rules! go { ($it:expr) => {{
                    let it = $it;
                    for q in qv.iter() {
                        let want: Vec<u32> = it.interp(*q).unwrap().iter().map(|s| s.0).collect();
                        it.interp_into(*q, one.index_axis_mut(Axis(0), 0)).unwrap();
                        ok &= one.index_axis(Axis(0), 0).iter().map(|s| s.0).collect::<Vec<_>>() == want;
                    }
                    let want: Vec<u32> = it.interp_array(&qarr).unwrap().iter().map(|s| s.0).collect();
                    it.interp_array_into(&qarr, many.view_mut()).unwrap();
                    ok &= many.iter().map(|s| s.0).collect::<Vec<_>>() == want;
                }}; }
                if strat == "linear" { go!(Interp1DBuilder::new(d).x(x.clone()).strategy(Linear::new().extrapolate(true)).build().unwrap()); }
                else { go!(Interp1DBuilder::new(d).x(x.clone()).strategy(CubicSpline::new().extrapolate(true)).build().unwrap()); }
                ok
            }));
            ck(checks, format!("C13:data-and-buffer-{lname}{tag}"), r.unwrap_or(false), String::new());
        }
    }
    {
        let big = strided_big(&data);
        let xbig = { let mut b = Array1::from_elem(2 * n + 1, var("POISON", 777.0)); b.slice_mut(ndarray::s![1..;2]).assign(&x); b };
        let r = catch_unwind(AssertUnwindSafe(|| -> Vec<u32> {
            let mut v = big.view();
            for ax in 0..v.ndim() { v.slice_axis_inplace(Axis(ax), ndarray::Slice::new(1, None, 2)); }
            let xv = xbig.slice(ndarray::s![1..;2]);
            let mut out = vec![];
            if strat == "linear" {
                let it = Interp1DBuilder::new(v).x(xv).strategy(Linear::new().extrapolate(true)).build().unwrap();
                for q in qv.iter() { out.extend(it.interp(*q).unwrap().iter().map(|s| s.0)); }
                into_bufs!(it, out);
                out.extend(it.interp_array(&qarr).unwrap().iter().map(|s| s.0));
            } else {
                let it = Interp1DBuilder::new(v).x(xv).strategy(CubicSpline::new().extrapolate(true)).build().unwrap();
                for q in qv.iter() { out.extend(it.interp(*q).unwrap().iter().map(|s| s.0)); }
                out.extend(it.interp_array(&qarr).unwrap().iter().map(|s| s.0));
            }
            out
        }));
        ck(checks, format!("C13:data-strided-view-axis-strided-view{tag}"), r.map(|r| r == base).unwrap_or(false), String::new());
    }
}


// ------------------------------------------------------------------------------------------------
// C09: interp_scalar == interp on 1-D (2-D) data, also exactly on knots and at the range ends
// ------------------------------------------------------------------------------------------------
pub fn scalar(args: &[String], checks: &mut Vec<Check>) {
    let n: usize = str_arg(args, "n", "5").parse().unwrap();
    let x = axis("x", n, 2);
    let xs: Vec<f64> = x.iter().map(|s| shadow(*s)).collect();
    let data: Array1<Sym> = Array1::from((0..n).map(|i| var(&format!("d{i}"), ((i * 7) % 5) as f64 - 1.5)).collect::<Vec<_>>());
    let mut qs: Vec<Sym> = (0..n - 1).map(|i| var(&format!("q{i}"), xs[i] + 0.3125 * (xs[i + 1] - xs[i]))).collect();
    for i in 0..n { qs.push(var(&format!("qk{i}"), xs[i])); }       // exactly on every knot (a different variable with the same value)
    macro_rules! cmp { ($name:expr, $it:expr) => {{
        let it = $it; let mut ok = true; let mut detail = String::new();
        for q in qs.iter() {
            let a = it.interp_scalar(*q); let b = it.interp(*q);
            match (a, b) { (Ok(a), Ok(b)) => { if b.ndim() != 0 || b.iter().next().unwrap().0 != a.0 { ok = false; detail = format!("query {:?}", q); } }
                           (Err(_), Err(_)) => {} _ => { ok = false; detail = format!("Ok/Err mismatch at {:?}", q); } }
        }
        ck(checks, format!("C09:scalar-eq-interp[{},n={n}]", $name), ok, detail);
    }}; }
    cmp!("linear", Interp1DBuilder::new(data.clone()).x(x.clone()).strategy(Linear::new()).build().unwrap());
    cmp!("linear-extrap", Interp1DBuilder::new(data.clone()).x(x.clone()).strategy(Linear::new().extrapolate(true)).build().unwrap());
    if n >= 3 { cmp!("spline", Interp1DBuilder::new(data.clone()).x(x.clone()).strategy(CubicSpline::new()).build().unwrap()); }
    cmp!("default-axis", Interp1DBuilder::new(data.clone()).build().unwrap());
    // custom strategy: interp_scalar must go through the strategy with the unmodified query and a 0-d target
    reset_logs2();
    let it = Interp1DBuilder::new(data.clone()).x(x.clone()).strategy(Rec::<2>).build().unwrap();
    let mut ok = true;
    for q in qs.iter() {
        LOG.with(|l| l.borrow_mut().clear());
        let r = it.interp_scalar(*q);
        let log = LOG.with(|l| l.borrow().clone());
        ok &= r.is_ok() && log.len() == 1 && log[0].0 == q.0 && log[0].2.is_empty();
    }
    ck(checks, format!("C18:scalar-goes-through-strategy[n={n}]"), ok, String::new());
    FAIL_AT.with(|f| f.set(Some(CALLS.with(|c| c.get()))));
    let r = it.interp_scalar(qs[0]);
    ck(checks, format!("C18:error-passthrough[interp_scalar,n={n}]"), matches!(&r, Err(InterpolateError::OutOfBounds(m)) if m.starts_with("injected-")), String::new());
    reset_logs2();
    // 2-D
    let ny = 4usize;
    let y = axis("y", ny, 5);
    let ys: Vec<f64> = y.iter().map(|s| shadow(*s)).collect();
    let d2: Array2<Sym> = Array2::from_shape_fn((n, ny), |(i, k)| var(&format!("z{i}_{k}"), ((i * 3 + k * 5) % 7) as f64 * 0.5));
    let it2 = Interp2DBuilder::new(d2).x(x.clone()).y(y.clone()).build().unwrap();
    let mut ok = true; let mut detail = String::new();
    for (i, q) in qs.iter().enumerate() {
        let qy = if i % 2 == 0 { var(&format!("qy{i}"), ys[i % (ny - 1)] + 0.4 * (ys[i % (ny - 1) + 1] - ys[i % (ny - 1)])) } else { var(&format!("qyk{i}"), ys[i % ny]) };
        match (it2.interp_scalar(*q, qy), it2.interp(*q, qy)) {
            (Ok(a), Ok(b)) => { if b.ndim() != 0 || b.iter().next().unwrap().0 != a.0 { ok = false; detail = format!("query {i}"); } }
            (Err(_), Err(_)) => {} _ => { ok = false; detail = format!("Ok/Err mismatch at query {i}"); } }
    }
    ck(checks, format!("C09:scalar-eq-interp[bilinear,n={n}]"), ok, detail);
}

// ------------------------------------------------------------------------------------------------
// C06: inside the range the extrapolation flag is unobservable (same nodes with the flag on and off),
// on data whose f64 evaluation over- or undershoots the knot values (so that any "repair" of rounding
// that depends on the flag changes the recorded computation)
// ------------------------------------------------------------------------------------------------
fn overshoot_column(xs: &[f64], lane: usize) -> Vec<f64> {
    // y values such that fl((y2-y1)/(x2-x1)*(x2-x1)+y1) != y2 on as many segments as possible
    let cands = [0.1, 0.3, 2.22, 0.7, 1.1, 2.3, 0.9, 3.3, 0.15, 1.7, 2.9, 0.45, 5.1, 0.35];
    let mut ys = vec![cands[lane % cands.len()]];
    for i in 1..xs.len() {
        let y1 = ys[i - 1];
        let mut pick = cands[(i * 3 + lane) % cands.len()];
        for k in 0..cands.len() {
            let y2 = cands[(i * 3 + lane + k) % cands.len()];
            let r = (y2 - y1) / (xs[i] - xs[i - 1]) * (xs[i] - xs[i - 1]) + y1;
            if r != y2 { pick = y2; break; }
        }
        ys.push(pick);
    }
    ys
}
pub fn flagpair(args: &[String], checks: &mut Vec<Check>) {
    let n: usize = str_arg(args, "n", "6").parse().unwrap();
    let lanes: usize = str_arg(args, "lanes", "2").parse().unwrap();
    let x = axis("x", n, 1);
    let xs: Vec<f64> = x.iter().map(|s| shadow(*s)).collect();
    let cols: Vec<Vec<f64>> = (0..lanes).map(|l| overshoot_column(&xs, l)).collect();
    let data: Array2<Sym> = Array2::from_shape_fn((n, lanes), |(i, l)| var(&format!("y{i}_{l}"), cols[l][i]));
    let mut qs: Vec<Sym> = Vec::new();
    for i in 0..n {
        qs.push(var(&format!("qk{i}"), xs[i]));
        if i + 1 < n {
            qs.push(var(&format!("qm{i}"), xs[i] + 0.3125 * (xs[i + 1] - xs[i])));
            qs.push(var(&format!("qb{i}"), f64::from_bits(xs[i + 1].to_bits() - if xs[i + 1] > 0.0 { 1 } else { 0 }).min(xs[i + 1])));
        }
    }
    let overs = (1..n).filter(|&i| { let (a, b) = (cols[0][i - 1], cols[0][i]); (b - a) / (xs[i] - xs[i - 1]) * (xs[i] - xs[i - 1]) + a != b }).count();
    ck(checks, format!("C06:flagpair-data-has-rounding-overshoot[n={n}]"), overs >= 1, format!("{overs} segments"));
    macro_rules! pair { ($name:expr, $off:expr, $on:expr) => {{
        let (off, on) = ($off, $on);
        let mut ok = true; let mut detail = String::new();
        for q in qs.iter() {
            match (off.interp(*q), on.interp(*q)) {
                (Ok(a), Ok(b)) => { if ids(&a) != ids(&b) { ok = false; detail = format!("query {:?}", q); } }
                (Err(_), _) | (_, Err(_)) => { ok = false; detail = format!("in-range query rejected: {:?}", q); }
            }
        }
        ck(checks, format!("C06:in-range-identical-with-flag-on-and-off[{},n={n},lanes={lanes}]", $name), ok, detail);
    }}; }
    pair!("linear", Interp1DBuilder::new(data.clone()).x(x.clone()).strategy(Linear::new()).build().unwrap(),
          Interp1DBuilder::new(data.clone()).x(x.clone()).strategy(Linear::new().extrapolate(true)).build().unwrap());
    if n >= 3 {
        pair!("spline", Interp1DBuilder::new(data.clone()).x(x.clone()).strategy(CubicSpline::new()).build().unwrap(),
              Interp1DBuilder::new(data.clone()).x(x.clone()).strategy(CubicSpline::new().extrapolate(true)).build().unwrap());
        pair!("spline-natural", Interp1DBuilder::new(data.clone()).x(x.clone()).strategy(CubicSpline::new().boundary(BoundaryCondition::Natural)).build().unwrap(),
              Interp1DBuilder::new(data.clone()).x(x.clone()).strategy(CubicSpline::new().boundary(BoundaryCondition::Natural).extrapolate(true)).build().unwrap());
    }
    // 2-D
    let ny = 4usize;
    let y = axis("y", ny, 5);
    let ys: Vec<f64> = y.iter().map(|s| shadow(*s)).collect();
    let d2: Array2<Sym> = Array2::from_shape_fn((n, ny), |(i, k)| var(&format!("z{i}_{k}"), overshoot_column(&xs, k)[i] + 0.1 * k as f64));
    let off = Interp2DBuilder::new(d2.clone()).x(x.clone()).y(y.clone()).strategy(Bilinear::new()).build().unwrap();
    let on = Interp2DBuilder::new(d2).x(x.clone()).y(y.clone()).strategy(Bilinear::new().extrapolate(true)).build().unwrap();
    let mut ok = true; let mut detail = String::new();
    for (i, q) in qs.iter().enumerate() {
        for qy in [var(&format!("qyk{}", i % ny), ys[i % ny]), var(&format!("qym{}", i % (ny - 1)), ys[i % (ny - 1)] + 0.4375 * (ys[i % (ny - 1) + 1] - ys[i % (ny - 1)]))] {
            match (off.interp_scalar(*q, qy), on.interp_scalar(*q, qy)) {
                (Ok(a), Ok(b)) => { if a.0 != b.0 { ok = false; detail = format!("query {i}"); } }
                _ => { ok = false; detail = format!("in-range query rejected: {i}"); }
            }
        }
    }
    ck(checks, format!("C06:in-range-identical-with-flag-on-and-off[bilinear,n={n}]"), ok, detail);
}
