//! Engine S runner: drives the REAL generic crate (path dependency on the /repo working tree)
//! with the term-recording scalar `Sym` through its public API and prints the recorded DAGs.
mod sym;
mod entry;
mod entry2;
mod probe;
mod shim;
use std::collections::BTreeMap;
use std::panic::{catch_unwind, AssertUnwindSafe};

use ndarray::{Array, Array1, ArrayD, Axis, Dimension, IxDyn, RemoveAxis, ShapeBuilder};
use ndarray_interp::interp1d::cubic_spline::{BoundaryCondition, CubicSpline, RowBoundary, SingleBoundary};
use ndarray_interp::interp1d::{Interp1DBuilder, Linear};
use ndarray_interp::interp2d::{Bilinear, Interp2DBuilder};
use ndarray_interp::BuilderError;
use sym::*;

pub fn gaps(seed: usize) -> Vec<f64> {
    let base = [1.0, 2.0, 0.5, 1.5, 3.0, 0.75, 2.5, 1.25, 0.625, 4.0];
    (0..base.len()).map(|i| base[(i + seed) % base.len()]).collect()
}

thread_local! {
    pub static BUILDER_ORDER: std::cell::Cell<bool> = std::cell::Cell::new(false);
    pub static CONST_LANE: std::cell::Cell<bool> = std::cell::Cell::new(false);
    pub static BOUNDS_F: std::cell::Cell<bool> = std::cell::Cell::new(false);
    pub static AXIS_OFFSET: std::cell::Cell<f64> = std::cell::Cell::new(0.0);
    pub static AXIS_SCALE: std::cell::Cell<f64> = std::cell::Cell::new(1.0);
    pub static AXIS_GAPSET: std::cell::RefCell<String> = std::cell::RefCell::new(String::new());
    pub static AXIS_REVERSED: std::cell::Cell<bool> = std::cell::Cell::new(false);
}
pub fn axis(prefix: &str, n: usize, seed: usize) -> Array1<Sym> {
    let base = gaps(seed);
    let m = n.saturating_sub(1);
    let gs = AXIS_GAPSET.with(|g| g.borrow().clone());
    // alternating 1.5 / 0.5 pairs (mean 1), padded with a 1.0 if the count is odd
    let alt = |count: usize| -> Vec<f64> { let mut v: Vec<f64> = (0..count / 2).flat_map(|_| [1.5, 0.5]).collect(); if count % 2 == 1 { v.push(1.0); } v };
    let g: Vec<f64> = match gs.as_str() {
        "uniform" => vec![1.0; m],
        // first interval == mean interval although the axis is not uniform
        "mean" => { let mut v = vec![1.0]; v.extend(alt(m.saturating_sub(1))); v.truncate(m); v }
        // first AND last interval equal the mean interval; with start 0 the axis also runs from 0 to n-1 like the default index axis
        "endsmean" => { if m >= 2 { let mut v = vec![1.0]; v.extend(alt(m - 2)); v.push(1.0); v } else { vec![1.0; m] } }
        "palindrome" => { let h = [0.5, 2.0, 1.25, 3.0, 0.75]; (0..m).map(|i| h[i.min(m - 1 - i) % h.len()]).collect() }
        _ => (0..m).map(|i| base[i % base.len()]).collect(),
    };
    let scale = AXIS_SCALE.with(|o| o.get());
    let mut v = if gs == "endsmean" { 0.0 } else { -1.25 + seed as f64 * 0.5 } + AXIS_OFFSET.with(|o| o.get());
    let mut out = Vec::new();
    for i in 0..n {
        out.push(var(&format!("{prefix}{i}"), v * scale));
        if i < m { v += g[i]; }
    }
    let a = Array1::from(out);
    if AXIS_REVERSED.with(|r| r.get()) {
        // same logical contents, stored in reverse memory order (stride -1)
        let mut r = Array1::from(a.iter().rev().copied().collect::<Vec<_>>());
        r.invert_axis(Axis(0));
        return r;
    }
    a
}

pub fn json_escape(s: &str) -> String { s.replace('\\', "\\\\").replace('"', "\\\"") }

pub fn dump(name: &str, outputs: &BTreeMap<String, u32>, result: &str, extra: &str) {
    ARENA.with(|a| {
        let a = a.borrow();
        let mut s = String::new();
        s.push_str(&format!("{{\"scenario\":\"{}\",\"result\":\"{}\",\"decisions\":{},{}\"nodes\":[", json_escape(name), json_escape(result), a.decisions.len(), extra));
        for (i, n) in a.nodes.iter().enumerate() {
            if i > 0 { s.push(','); }
            match n {
                Node::Var(v) => s.push_str(&format!("[\"v\",\"{}\",{}]", v, a.shadow[i])),
                Node::Const(p, q) => s.push_str(&format!("[\"c\",\"{}\",\"{}\"]", p, q)),
                Node::Add(x, y) => s.push_str(&format!("[\"+\",{},{}]", x, y)),
                Node::Sub(x, y) => s.push_str(&format!("[\"-\",{},{}]", x, y)),
                Node::Mul(x, y) => s.push_str(&format!("[\"*\",{},{}]", x, y)),
                Node::Div(x, y) => s.push_str(&format!("[\"/\",{},{}]", x, y)),
                Node::Neg(x) => s.push_str(&format!("[\"n\",{}]", x)),
            }
        }
        s.push_str("],\"outputs\":{");
        for (i, (k, v)) in outputs.iter().enumerate() {
            if i > 0 { s.push(','); }
            s.push_str(&format!("\"{}\":{}", k, v));
        }
        s.push_str("}}");
        println!("{}", s);
    });
}

fn single(spec: &str, side: &str, lane: usize) -> SingleBoundary<Sym> {
    match spec {
        "NotAKnot" => SingleBoundary::NotAKnot,
        "Natural" => SingleBoundary::Natural,
        "Clamped" => SingleBoundary::Clamped,
        "FirstDeriv" => SingleBoundary::FirstDeriv(var(&format!("v{side}_{lane}"), if side == "l" { 0.375 } else { -0.625 } + lane as f64 * 0.25)),
        "SecondDeriv" => SingleBoundary::SecondDeriv(var(&format!("v{side}_{lane}"), if side == "l" { -0.5 } else { 0.875 } + lane as f64 * 0.25)),
        _ => panic!("unknown single boundary {spec}"),
    }
}

pub fn row_boundary(spec: &str, lane: usize) -> RowBoundary<Sym> {
    // "NotAKnot" | "Natural" | "Clamped" | "Mixed:L:R"
    let parts: Vec<&str> = spec.split(':').collect();
    match parts[0] {
        "NotAKnot" => RowBoundary::NotAKnot,
        "Natural" => RowBoundary::Natural,
        "Clamped" => RowBoundary::Clamped,
        "Mixed" => RowBoundary::Mixed { left: single(parts[1], "l", lane), right: single(parts[2], "r", lane) },
        _ => panic!("unknown row boundary {spec}"),
    }
}

fn err_kind(e: &BuilderError) -> &'static str {
    match e {
        BuilderError::NotEnoughData(_) => "NotEnoughData",
        BuilderError::Monotonic(_) => "Monotonic",
        BuilderError::ShapeError(_) => "ShapeError",
        BuilderError::ValueError(_) => "ValueError",
    }
}

/// spline scenario over data of dimension D (lanes flattened row-major for the output keys)
fn spline_run<D>(name: &str, n: usize, shape: D, bc_spec: &str, extrap: bool, seed: usize, layout: &str, strat_name: &str)
where
    D: Dimension + RemoveAxis,
{
    reset();
    let x = axis("x", n, seed);
    let total: usize = shape.size();
    let lanes = total / n.max(1);
    // logical contents: y{i}_{lane}
    let mut flat = Vec::with_capacity(total);
    for i in 0..n {
        for l in 0..lanes {
            // periodic scenarios need equal first/last shadows for the equal-ends check
            let row = if bc_spec == "Periodic" && i == n - 1 { 0 } else { i };
            let mut sh = ((row * 7 + l * 3) % 11) as f64 * 0.5 - 1.75 + (row as f64) * 0.125 * (l as f64 + 1.0);
            // `const=1`: lane 0 holds the same value at every knot (distinct variables, equal shadows)
            if CONST_LANE.with(|c| c.get()) && l == 0 { sh = 0.625; }
            flat.push(var(&format!("y{i}_{l}"), sh));
        }
    }
    let data_c: Array<Sym, D> = Array::from_shape_vec(shape.clone(), flat).expect("shape");
    // layout variants with identical logical contents
    let data: Array<Sym, D> = match layout {
        "c" => data_c,
        "f" => {
            let mut f = Array::from_elem(shape.clone().f(), konst_frac(0, 1));
            f.assign(&data_c);
            f
        }
        _ => panic!("layout"),
    };
    let bc: BoundaryCondition<Sym, D> = {
        let parts: Vec<&str> = bc_spec.splitn(2, '=').collect();
        match parts[0] {
            "NotAKnot" => BoundaryCondition::NotAKnot,
            "Natural" => BoundaryCondition::Natural,
            "Clamped" => BoundaryCondition::Clamped,
            "Periodic" => BoundaryCondition::Periodic,
            "Default" => BoundaryCondition::NotAKnot,   // placeholder: the strategy is built with CubicSpline::default() below
            "Individual" => {
                // Individual=<row spec for lane 0>|<lane 1>|...   (cycled over the lanes)
                let specs: Vec<&str> = parts[1].split('|').collect();
                let mut bshape = shape.clone();
                bshape[0] = 1;
                let rows: Vec<RowBoundary<Sym>> = (0..lanes).map(|l| row_boundary(specs[l % specs.len()], l)).collect();
                let barr = Array::from_shape_vec(bshape.clone(), rows).expect("bshape");
                if BOUNDS_F.with(|b| b.get()) {
                    // the same logical boundary array in column-major memory order
                    let mut f = Array::from_elem(bshape.f(), RowBoundary::NotAKnot);
                    f.assign(&barr);
                    BoundaryCondition::Individual(f)
                } else { BoundaryCondition::Individual(barr) }
            }
            _ => panic!("unknown boundary {bc_spec}"),
        }
    };
    let mut outputs: BTreeMap<String, u32> = BTreeMap::new();
    let r = catch_unwind(AssertUnwindSafe(|| {
        let xs: Vec<f64> = x.iter().map(|s| shadow(*s)).collect();
        let lin = if strat_name == "linear" {
            match Interp1DBuilder::new(data.clone()).x(x.clone()).strategy(Linear::new().extrapolate(extrap)).build() { Ok(i) => Some(i), Err(e) => return format!("builderr:{}", err_kind(&e)) }
        } else { None };
        let spl = if strat_name != "linear" {
            // both orders of the builder calls must configure the same strategy
            let strat = if bc_spec == "Default" { CubicSpline::default().extrapolate(extrap) } else if BUILDER_ORDER.with(|r| r.get()) { CubicSpline::new().extrapolate(extrap).boundary(bc) } else { CubicSpline::new().boundary(bc).extrapolate(extrap) };
            match Interp1DBuilder::new(data).x(x.clone()).strategy(strat).build() { Ok(i) => Some(i), Err(e) => return format!("builderr:{}", err_kind(&e)) }
        } else { None };
        let mut put = |key: &str, q: Sym, outputs: &mut BTreeMap<String, u32>| -> bool {
            let res = match (&lin, &spl) { (Some(i), _) => i.interp(q), (_, Some(i)) => i.interp(q), _ => unreachable!() };
            match res {
                Ok(arr) => {
                    for (l, v) in arr.iter().enumerate() { outputs.insert(format!("{key}:{l}"), v.0); }
                    true
                }
                Err(_) => { outputs.insert(format!("{key}:ERR"), 0); false }
            }
        };
        for i in 0..n - 1 {
            let q = var(&format!("q{i}"), xs[i] + (xs[i + 1] - xs[i]) * 0.3125);
            put(&format!("P:{i}"), q, &mut outputs);
            // a second query close to the right end of the same interval: one interval, one polynomial
            let q2 = var(&format!("qq{i}"), xs[i] + (xs[i + 1] - xs[i]) * 0.9375);
            put(&format!("Q:{i}"), q2, &mut outputs);
            // a query exactly on the NEXT knot, issued right after a query in the interval to its left
            // (the answer must come from the interval that starts at the knot, whatever was asked before)
            let qk = var(&format!("qk{}", i + 1), xs[i + 1]);
            put(&format!("K:{}", i + 1), qk, &mut outputs);
        }
        let span = xs[n - 1] - xs[0];
        // outside the range on both sides (Err when extrapolation is off)
        // the floats adjacent to the range ends, on the outside
        let below = |v: f64| if v > 0.0 { f64::from_bits(v.to_bits() - 1) } else if v < 0.0 { f64::from_bits(v.to_bits() + 1) } else { -f64::MIN_POSITIVE };
        let above = |v: f64| if v > 0.0 { f64::from_bits(v.to_bits() + 1) } else if v < 0.0 { f64::from_bits(v.to_bits() - 1) } else { f64::MIN_POSITIVE };
        put("PLE", var("qLe", below(xs[0])), &mut outputs);
        put("PRE", var("qRe", above(xs[n - 1])), &mut outputs);
        put("PL", var("qL", xs[0] - 0.4375 * span), &mut outputs);
        put("PR", var("qR", xs[n - 1] + 0.3125 * span), &mut outputs);
        if bc_spec == "Periodic" && extrap {
            for &k in &[-1i64, 1, 2, -3, 1000000, -1000000] {
                for i in [0usize, n - 2] {
                    let base = xs[i] + (xs[i + 1] - xs[i]) * 0.3125;
                    let kk = if k < 0 { format!("m{}", -k) } else { format!("{k}") };
                    put(&format!("PF:{kk}:{i}"), var(&format!("qF{kk}_{i}"), base + k as f64 * span), &mut outputs);
                }
            }
        }
        "ok".to_string()
    }));
    let result = match r { Ok(s) => s, Err(_) => "panic".to_string() };
    dump(name, &outputs, &result, &format!("\"strat\":\"{}\",\"n\":{},\"lanes\":{},\"bc\":\"{}\",\"extrap\":{},", strat_name, n, lanes, json_escape(bc_spec), extrap));
}

/// Bilinear over symbolic data: one query per cell (and extrapolated corners), lanes flattened
fn bil_run(name: &str, args: &[String]) {
    reset();
    let nx: usize = arg(args, "nx", "3").parse().unwrap();
    let ny: usize = arg(args, "ny", "3").parse().unwrap();
    let lanes: usize = arg(args, "lanes", "1").parse().unwrap();
    let extrap = arg(args, "extrap", "0") == "1";
    let seed: usize = arg(args, "seed", "0").parse().unwrap();
    let x = axis("x", nx, seed);
    let y = axis("y", ny, seed + 3);
    let flat: Vec<Sym> = (0..nx * ny * lanes).map(|c| var(&format!("z{}_{}_{}", c / (ny * lanes), (c / lanes) % ny, c % lanes), ((c * 5) % 13) as f64 * 0.25 - 1.0)).collect();
    let data = ndarray::Array3::from_shape_vec((nx, ny, lanes), flat).unwrap();
    let mut outputs: BTreeMap<String, u32> = BTreeMap::new();
    let r = catch_unwind(AssertUnwindSafe(|| {
        let it = match Interp2DBuilder::new(data).x(x.clone()).y(y.clone()).strategy(Bilinear::new().extrapolate(extrap)).build() { Ok(i) => i, Err(e) => return format!("builderr:{}", err_kind(&e)) };
        let xs: Vec<f64> = x.iter().map(|s| shadow(*s)).collect();
        let ys: Vec<f64> = y.iter().map(|s| shadow(*s)).collect();
        let mut put = |key: String, qx: Sym, qy: Sym, outputs: &mut BTreeMap<String, u32>| {
            match it.interp(qx, qy) {
                Ok(a) => { for (l, v) in a.iter().enumerate() { outputs.insert(format!("{key}:{l}"), v.0); } }
                Err(_) => { outputs.insert(format!("{key}:ERR"), 0); }
            }
        };
        for i in 0..nx - 1 { for k in 0..ny - 1 {
            let qx = var(&format!("qx{i}_{k}"), xs[i] + 0.3125 * (xs[i + 1] - xs[i]));
            let qy = var(&format!("qy{i}_{k}"), ys[k] + 0.4375 * (ys[k + 1] - ys[k]));
            put(format!("B:{i}:{k}"), qx, qy, &mut outputs);
        } }
        // outside in x, in y, and in both (border cells when extrapolating, Err otherwise)
        put("BX".into(), var("qxo", xs[nx - 1] + 1.5), var("qyi", ys[0] + 0.25 * (ys[1] - ys[0])), &mut outputs);
        put("BY".into(), var("qxi", xs[0] + 0.25 * (xs[1] - xs[0])), var("qyo", ys[0] - 2.25), &mut outputs);
        put("BXY".into(), var("qxo2", xs[0] - 0.75), var("qyo2", ys[ny - 1] + 3.5), &mut outputs);
        "ok".to_string()
    }));
    let result = match r { Ok(s) => s, Err(_) => "panic".to_string() };
    dump(name, &outputs, &result, &format!("\"strat\":\"bilinear\",\"nx\":{},\"ny\":{},\"n\":{},\"lanes\":{},\"bc\":\"\",\"extrap\":{},", nx, ny, nx, lanes, extrap));
}

fn arg<'a>(args: &'a [String], key: &str, default: &'a str) -> &'a str {
    for a in args {
        if let Some(v) = a.strip_prefix(&format!("{key}=")) { return v; }
    }
    default
}

fn main() {
    std::panic::set_hook(Box::new(|_| {}));
    // every line of stdin is one scenario: "<cmd> key=value ..."
    let mut line = String::new();
    loop {
        line.clear();
        if std::io::stdin().read_line(&mut line).unwrap_or(0) == 0 { break; }
        let args: Vec<String> = line.split_whitespace().map(|s| s.to_string()).collect();
        if args.is_empty() { continue; }
        let guard = catch_unwind(AssertUnwindSafe(|| {
        match args[0].as_str() {
            "spline" | "linear" => {
                let strat_name = args[0].clone();
                AXIS_OFFSET.with(|o| o.set(arg(&args, "off", "0").parse().unwrap()));
                AXIS_SCALE.with(|o| o.set(arg(&args, "xscale", "1").parse().unwrap()));
                AXIS_GAPSET.with(|g| *g.borrow_mut() = arg(&args, "gapset", "").to_string());
                AXIS_REVERSED.with(|r| r.set(arg(&args, "xlayout", "") == "rev"));
                BUILDER_ORDER.with(|r| r.set(arg(&args, "order", "be") == "eb"));
                CONST_LANE.with(|r| r.set(arg(&args, "const", "0") == "1"));
                BOUNDS_F.with(|r| r.set(arg(&args, "blayout", "c") == "f"));
                let n: usize = arg(&args, "n", "4").parse().unwrap();
                let lanes: Vec<usize> = arg(&args, "lanes", "").split('x').filter(|s| !s.is_empty()).map(|s| s.parse().unwrap()).collect();
                let bc = arg(&args, "bc", "NotAKnot").to_string();
                let extrap = arg(&args, "extrap", "0") == "1";
                let seed: usize = arg(&args, "seed", "0").parse().unwrap();
                let layout = arg(&args, "layout", "c").to_string();
                let dynd = arg(&args, "dyn", "0") == "1";
                let name = line.trim().to_string();
                if dynd {
                    let mut sh = vec![n];
                    sh.extend(lanes.iter());
                    spline_run(&name, n, IxDyn(&sh), &bc, extrap, seed, &layout, &strat_name);
                } else {
                    match lanes.len() {
                        0 => spline_run(&name, n, ndarray::Ix1(n), &bc, extrap, seed, &layout, &strat_name),
                        1 => spline_run(&name, n, ndarray::Ix2(n, lanes[0]), &bc, extrap, seed, &layout, &strat_name),
                        2 => spline_run(&name, n, ndarray::Ix3(n, lanes[0], lanes[1]), &bc, extrap, seed, &layout, &strat_name),
                        3 => spline_run(&name, n, ndarray::Ix4(n, lanes[0], lanes[1], lanes[2]), &bc, extrap, seed, &layout, &strat_name),
                        _ => panic!("too many lane axes"),
                    }
                }
            }
            "bilinear" => { AXIS_OFFSET.with(|o| o.set(0.0)); AXIS_SCALE.with(|o| o.set(1.0)); AXIS_GAPSET.with(|g| g.borrow_mut().clear()); AXIS_REVERSED.with(|r| r.set(false)); bil_run(line.trim(), &args) }
            "probe" => probe::probe(arg(&args, "unit", "")),
            "shim" => shim::run(line.trim()),
            other => { AXIS_OFFSET.with(|o| o.set(0.0)); AXIS_SCALE.with(|o| o.set(1.0)); AXIS_GAPSET.with(|g| g.borrow_mut().clear()); AXIS_REVERSED.with(|r| r.set(false)); entry::dispatch(other, &args, line.trim()) }
        }
        }));
        if guard.is_err() {
            println!("{{\"scenario\":\"{}\",\"result\":\"harness-panic\",\"checks\":[]}}", json_escape(line.trim()));
        }
    }
}

#[allow(dead_code)]
fn _unused(_: ArrayD<Sym>, _: Axis, _: Linear, _: Bilinear) { let _ = Interp2DBuilder::new(ndarray::Array2::<f64>::zeros((2, 2))); }
