// PRELUDE — carrier, arithmetic models and the ndarray / num-traits shim.
// Everything in this file is an ASSUMED contract on a dependency or a modelling
// decision; nothing here is code from /repo.  Every `external_body` below is on
// the whitelist that the driver reports under `assumptions` / `trusted_base`.
#![allow(unused_imports, dead_code, unused_variables, unused_mut, non_snake_case, unused_parens, unused_braces)]
use vstd::prelude::*;
use vstd::std_specs::core::IndexSpecImpl;
use vstd::std_specs::cmp::*;
use vstd::std_specs::ops::*;

// `format!` only builds diagnostic strings on error paths; its value never reaches
// a contract.  (assumption: format! has no effect on values)
macro_rules! format { ($($t:tt)*) => { fmt_stub() } }

// `unreachable!()` becomes a call with `requires false`: the arm must be PROVED dead from the callee contracts.
macro_rules! unreachable { () => { unreachable_shim() } }
// the only slice expression the extracted code uses: all but the first and the last element
macro_rules! s { (1..-1) => { SliceInner } }

verus! {

#[verifier::external_body]
pub fn fmt_stub() -> String { String::new() }
#[verifier::external_body]
pub fn unreachable_shim<A>() -> A requires false { unimplemented!() }
/// body of a match arm that rewrite R10 dropped: NOTHING is claimed about executions that enter it
#[verifier::external_body]
pub fn opaque_arm<A>() -> A ensures false { unimplemented!() }
pub struct SliceInner;

// ---------------------------------------------------------------------------
// arithmetic: uninterpreted rounding operators + two axiom groups
// ---------------------------------------------------------------------------
pub uninterp spec fn fl_add(a: real, b: real) -> real;
pub uninterp spec fn fl_sub(a: real, b: real) -> real;
pub uninterp spec fn fl_mul(a: real, b: real) -> real;
pub uninterp spec fn fl_div(a: real, b: real) -> real;
pub uninterp spec fn fl_neg(a: real) -> real;

// IEEE-754 addition and multiplication are commutative (bit for bit, NaN payloads aside)
#[verifier::external_body]
pub broadcast proof fn ax_fl_add_comm(a: real, b: real) ensures #[trigger] fl_add(a, b) == fl_add(b, a) {}
#[verifier::external_body]
pub broadcast proof fn ax_fl_mul_comm(a: real, b: real) ensures #[trigger] fl_mul(a, b) == fl_mul(b, a) {}
pub broadcast group A_comm { ax_fl_add_comm, ax_fl_mul_comm }

// A-exact: machine arithmetic treated as mathematical
#[verifier::external_body]
pub broadcast proof fn ax_exact_add(a: real, b: real) ensures #[trigger] fl_add(a, b) == a + b {}
#[verifier::external_body]
pub broadcast proof fn ax_exact_sub(a: real, b: real) ensures #[trigger] fl_sub(a, b) == a - b {}
#[verifier::external_body]
pub broadcast proof fn ax_exact_mul(a: real, b: real) ensures #[trigger] fl_mul(a, b) == a * b {}
#[verifier::external_body]
pub broadcast proof fn ax_exact_div(a: real, b: real) requires b != 0real ensures #[trigger] fl_div(a, b) == a / b {}
#[verifier::external_body]
pub broadcast proof fn ax_exact_neg(a: real) ensures #[trigger] fl_neg(a) == -a {}
pub broadcast group A_exact { ax_exact_add, ax_exact_sub, ax_exact_mul, ax_exact_div, ax_exact_neg }

// A-float: standard model of IEEE-754 round-to-nearest without overflow.
// uu >= 2^-24 (f32 unit roundoff, also bounds f64), eta >= 2^-149 (subnormal absolute error)
pub open spec fn uu() -> real { 0.0000001real }
pub open spec fn eta() -> real { 0.000000000000000000000000000000000000000000002real }
pub open spec fn rabs(x: real) -> real { if x < 0real { -x } else { x } }

#[verifier::external_body]
pub broadcast proof fn ax_fl_sub(a: real, b: real)
    ensures rabs(#[trigger] fl_sub(a, b) - (a - b)) <= uu() * rabs(a - b),
            a >= b ==> fl_sub(a, b) >= 0real,
            a > b ==> fl_sub(a, b) > 0real,     // Sterbenz / gradual underflow: a != b ==> fl(a-b) != 0
            fl_sub(a, 0real) == a {}
#[verifier::external_body]
pub proof fn ax_fl_sub_mono(a: real, b: real, c: real, d: real)
    requires a - b <= c - d ensures fl_sub(a, b) <= fl_sub(c, d) {}
#[verifier::external_body]
pub broadcast proof fn ax_fl_mul(a: real, b: real)
    ensures rabs(#[trigger] fl_mul(a, b) - (a * b)) <= uu() * rabs(a * b) + eta(),
            a * b >= 0real ==> fl_mul(a, b) >= 0real {}
#[verifier::external_body]
pub broadcast proof fn ax_fl_div(a: real, b: real)
    requires b != 0real
    ensures rabs(#[trigger] fl_div(a, b) - (a / b)) <= uu() * rabs(a / b) + eta(),
            a / b >= 0real ==> fl_div(a, b) >= 0real {}
#[verifier::external_body]
pub broadcast proof fn ax_fl_add_zero(a: real) ensures #[trigger] fl_add(a, 0real) == a {}
pub broadcast group A_float { ax_fl_sub, ax_fl_mul, ax_fl_div, ax_fl_add_zero }

// the same standard model in "(1+delta)" form: fl(a op b) = (a op b)(1 + d) + e, |d| <= u, |e| <= eta (e = 0 for + and -)
pub uninterp spec fn del_add(a: real, b: real) -> real;
pub uninterp spec fn del_sub(a: real, b: real) -> real;
pub uninterp spec fn del_mul(a: real, b: real) -> real;
pub uninterp spec fn del_div(a: real, b: real) -> real;
pub uninterp spec fn und_mul(a: real, b: real) -> real;
pub uninterp spec fn und_div(a: real, b: real) -> real;
#[verifier::external_body]
pub proof fn ax_rel_add(a: real, b: real)
    ensures fl_add(a, b) == (a + b) * (1real + del_add(a, b)), -uu() <= del_add(a, b) <= uu() {}
#[verifier::external_body]
pub proof fn ax_rel_sub(a: real, b: real)
    ensures fl_sub(a, b) == (a - b) * (1real + del_sub(a, b)), -uu() <= del_sub(a, b) <= uu() {}
#[verifier::external_body]
pub proof fn ax_rel_mul(a: real, b: real)
    ensures fl_mul(a, b) == (a * b) * (1real + del_mul(a, b)) + und_mul(a, b), -uu() <= del_mul(a, b) <= uu(), -eta() <= und_mul(a, b) <= eta() {}
#[verifier::external_body]
pub proof fn ax_rel_div(a: real, b: real)
    requires b != 0real
    ensures fl_div(a, b) == (a / b) * (1real + del_div(a, b)) + und_div(a, b), -uu() <= del_div(a, b) <= uu(), -eta() <= und_div(a, b) <= eta() {}

// truncation toward zero used by NumCast float -> usize
pub uninterp spec fn trunc(x: real) -> int;
#[verifier::external_body]
pub broadcast proof fn ax_trunc(x: real)
    ensures x >= 0real ==> (0 <= #[trigger] trunc(x) && trunc(x) as real <= x && x < trunc(x) as real + 1real),
            (-1real < x && x < 0real) ==> trunc(x) == 0 {}

// euclidean remainder (num_traits::Euclid for floats): r = a - P*floor(a/P), 0 <= r < P
pub uninterp spec fn fl_rem_euclid(a: real, p: real) -> real;
pub uninterp spec fn euclid_k(a: real, p: real) -> int;
#[verifier::external_body]
pub broadcast proof fn ax_exact_rem_euclid(a: real, p: real)
    requires p > 0real
    ensures #[trigger] fl_rem_euclid(a, p) == a - (euclid_k(a, p) as real) * p,
            0real <= fl_rem_euclid(a, p), fl_rem_euclid(a, p) < p {}

// ---------------------------------------------------------------------------
// the carrier: a ghost extended real with explicit NaN/inf kind and a dependency set
// ---------------------------------------------------------------------------
pub enum Cell {
    Query, QueryY,
    Axis(int), AxisY(int),
    Data(int, int, int),      // (row, col, lane)   col = 0 for 1-D interpolation
    CoefA(int, int), CoefB(int, int),   // (row, lane)
    Other(int),
}

// kind: 0 finite, 1 +inf, -1 -inf, 2 NaN
#[derive(Clone, Copy)]
pub struct T { pub v: Ghost<real>, pub k: Ghost<int>, pub deps: Ghost<Set<Cell>> }

impl View for T { type V = real; open spec fn view(&self) -> real { self.v@ } }

pub open spec fn mk(v: real, k: int, deps: Set<Cell>) -> T { T { v: Ghost(v), k: Ghost(k), deps: Ghost(deps) } }
pub open spec fn is_nan(a: T) -> bool { a.k@ != 0 && a.k@ != 1 && a.k@ != -1 }
pub open spec fn is_fin(a: T) -> bool { a.k@ == 0 }
// IEEE comparison semantics on non-NaN extended reals (false as soon as one side is NaN)
pub open spec fn t_lt(a: T, b: T) -> bool {
    !is_nan(a) && !is_nan(b) && (a.k@ < b.k@ || (a.k@ == 0 && b.k@ == 0 && a@ < b@))
}
pub open spec fn t_eq(a: T, b: T) -> bool {
    !is_nan(a) && !is_nan(b) && a.k@ == b.k@ && (a.k@ == 0 ==> a@ == b@)
}
pub open spec fn t_le(a: T, b: T) -> bool { t_lt(a, b) || t_eq(a, b) }
pub open spec fn t_gt(a: T, b: T) -> bool { t_lt(b, a) }
pub open spec fn t_ge(a: T, b: T) -> bool { t_le(b, a) }

// result kind when an operand is not finite (or a finite division by zero): left unspecified
pub uninterp spec fn nf_kind(op: int, a: T, b: T) -> int;
pub open spec fn bin_kind(op: int, a: T, b: T) -> int {
    if is_fin(a) && is_fin(b) && (op == 3 ==> b@ != 0real) { 0 } else { nf_kind(op, a, b) }
}
pub open spec fn t_add(a: T, b: T) -> T { mk(fl_add(a@, b@), bin_kind(0, a, b), a.deps@.union(b.deps@)) }
pub open spec fn t_sub(a: T, b: T) -> T { mk(fl_sub(a@, b@), bin_kind(1, a, b), a.deps@.union(b.deps@)) }
pub open spec fn t_mul(a: T, b: T) -> T { mk(fl_mul(a@, b@), bin_kind(2, a, b), a.deps@.union(b.deps@)) }
pub open spec fn t_div(a: T, b: T) -> T { mk(fl_div(a@, b@), bin_kind(3, a, b), a.deps@.union(b.deps@)) }
pub open spec fn t_neg(a: T) -> T { mk(fl_neg(a@), if is_fin(a) { 0 } else { nf_kind(4, a, a) }, a.deps@) }
pub open spec fn t_rem_euclid(a: T, b: T) -> T {
    mk(fl_rem_euclid(a@, b@), if is_fin(a) && is_fin(b) && b@ != 0real { 0 } else { nf_kind(5, a, b) }, a.deps@.union(b.deps@))
}

pub open spec fn t_zero() -> T { mk(0real, 0, Set::empty()) }
pub fn mk_exec(m: Ghost<T>) -> (r: T) ensures r == m@ { T { v: Ghost(m@.v@), k: Ghost(m@.k@), deps: Ghost(m@.deps@) } }

impl AddSpecImpl<T> for T {
    open spec fn obeys_add_spec() -> bool { true }
    open spec fn add_req(self, rhs: T) -> bool { true }
    open spec fn add_spec(self, rhs: T) -> T { t_add(self, rhs) }
}
impl core::ops::Add for T { type Output = T; fn add(self, rhs: T) -> (r: T) { mk_exec(Ghost(t_add(self, rhs))) } }
impl SubSpecImpl<T> for T {
    open spec fn obeys_sub_spec() -> bool { true }
    open spec fn sub_req(self, rhs: T) -> bool { true }
    open spec fn sub_spec(self, rhs: T) -> T { t_sub(self, rhs) }
}
impl core::ops::Sub for T { type Output = T; fn sub(self, rhs: T) -> (r: T) { mk_exec(Ghost(t_sub(self, rhs))) } }
impl MulSpecImpl<T> for T {
    open spec fn obeys_mul_spec() -> bool { true }
    open spec fn mul_req(self, rhs: T) -> bool { true }
    open spec fn mul_spec(self, rhs: T) -> T { t_mul(self, rhs) }
}
impl core::ops::Mul for T { type Output = T; fn mul(self, rhs: T) -> (r: T) { mk_exec(Ghost(t_mul(self, rhs))) } }
impl DivSpecImpl<T> for T {
    open spec fn obeys_div_spec() -> bool { true }
    open spec fn div_req(self, rhs: T) -> bool { true }   // float division never panics
    open spec fn div_spec(self, rhs: T) -> T { t_div(self, rhs) }
}
impl core::ops::Div for T { type Output = T; fn div(self, rhs: T) -> (r: T) { mk_exec(Ghost(t_div(self, rhs))) } }
impl NegSpecImpl for T {
    open spec fn obeys_neg_spec() -> bool { true }
    open spec fn neg_req(self) -> bool { true }
    open spec fn neg_spec(self) -> T { t_neg(self) }
}
impl core::ops::Neg for T { type Output = T; fn neg(self) -> (r: T) { mk_exec(Ghost(t_neg(self))) } }

impl PartialEqSpecImpl for T {
    open spec fn obeys_eq_spec() -> bool { true }
    open spec fn eq_spec(&self, o: &T) -> bool { t_eq(*self, *o) }
}
impl PartialEq for T {
    #[verifier::external_body]
    fn eq(&self, o: &T) -> (r: bool) { unimplemented!() }
}
impl PartialOrdSpecImpl for T {
    open spec fn obeys_partial_cmp_spec() -> bool { true }
    open spec fn partial_cmp_spec(&self, o: &T) -> Option<core::cmp::Ordering> {
        if is_nan(*self) || is_nan(*o) { None }
        else if t_lt(*self, *o) { Some(core::cmp::Ordering::Less) }
        else if t_eq(*self, *o) { Some(core::cmp::Ordering::Equal) }
        else { Some(core::cmp::Ordering::Greater) }
    }
}
impl PartialOrd for T {
    #[verifier::external_body]
    fn partial_cmp(&self, o: &T) -> (r: Option<core::cmp::Ordering>) { unimplemented!() }
}

impl T {
    // num_traits::Euclid::rem_euclid(&self, &v)
    #[verifier::external_body]
    pub fn rem_euclid(&self, v: &T) -> (r: T) ensures r == t_rem_euclid(*self, *v) { unimplemented!() }
    // num_traits::Pow<T>::pow
    #[verifier::external_body]
    pub fn pow(self, e: T) -> (r: T)
        requires is_fin(e), e@ == 2real
        ensures r == t_mul(self, self) { unimplemented!() }
}

// ---------------------------------------------------------------------------
// num_traits::cast
// ---------------------------------------------------------------------------
pub trait CastTo<B>: Sized {
    spec fn cast_spec(self) -> Option<B>;
    fn cast_to(self) -> (r: Option<B>) ensures r == self.cast_spec();
}
pub fn cast<A: CastTo<B>, B>(a: A) -> (r: Option<B>) ensures r == a.cast_spec() { a.cast_to() }

pub open spec fn pow2_53() -> int { 9007199254740992int }
impl CastTo<T> for usize {
    // exact for n <= 2^53 (f64); larger values round (not modelled: left unspecified)
    open spec fn cast_spec(self) -> Option<T> {
        if self as int <= pow2_53() { Some(mk(self as real, 0, Set::empty())) } else { Some(cast_big(self)) }
    }
    #[verifier::external_body]
    fn cast_to(self) -> (r: Option<T>) { unimplemented!() }
}
pub uninterp spec fn cast_big(n: usize) -> T;
impl CastTo<usize> for T {
    // f64 -> usize: Some(trunc toward zero) iff -1 < v < 2^64 (num-traits `float_to_int`)
    open spec fn cast_spec(self) -> Option<usize> {
        if is_fin(self) && -1real < self@ && trunc(self@) <= usize::MAX as int && self@ < 18446744073709551616real { Some(trunc(self@) as usize) } else { None }
    }
    #[verifier::external_body]
    fn cast_to(self) -> (r: Option<usize>) { unimplemented!() }
}
pub uninterp spec fn f64_real(x: f64) -> real;
#[verifier::external_body]
pub proof fn ax_f64_consts()
    ensures f64_real(0.0f64) == 0real, f64_real(1.0f64) == 1real, f64_real(2.0f64) == 2real, f64_real(3.0f64) == 3real {}
impl CastTo<T> for f64 {
    open spec fn cast_spec(self) -> Option<T> { Some(mk(f64_real(self), 0, Set::empty())) }
    #[verifier::external_body]
    fn cast_to(self) -> (r: Option<T>) { unimplemented!() }
}

// ---------------------------------------------------------------------------
// ndarray shim: logical (stride-free) containers
// ---------------------------------------------------------------------------
#[derive(Clone, Copy)]
pub struct Axis(pub usize);
pub const AX0: Axis = Axis(0);

/// 1-D array of scalars (ArrayBase<_, Ix1>)
pub struct Arr1 { pub d: Ghost<Seq<T>> }
impl View for Arr1 { type V = Seq<T>; open spec fn view(&self) -> Seq<T> { self.d@ } }
impl Arr1 {
    #[verifier::external_body]
    pub fn len(&self) -> (r: usize) ensures r == self@.len() { unimplemented!() }
}
impl IndexSpecImpl<usize> for Arr1 {
    open spec fn index_req(&self, i: &usize) -> bool { *i < self@.len() }
}
impl core::ops::Index<usize> for Arr1 { type Output = T;
    #[verifier::external_body]
    fn index(&self, i: usize) -> (r: &T) ensures *r == self@[i as int] { unimplemented!() }
}

/// a lane bundle: the data (or coefficients, or the target) at one fixed index of the
/// interpolated axes, all trailing axes flattened (ArrayView / ArrayViewMut<_, D::Smaller>)
pub struct Lanes { pub d: Ghost<Seq<T>> }
impl View for Lanes { type V = Seq<T>; open spec fn view(&self) -> Seq<T> { self.d@ } }
impl Lanes {
    #[verifier::external_body]
    pub fn len(&self) -> (r: usize) ensures r == self@.len() { unimplemented!() }
    #[verifier::external_body]
    pub fn get(&self, i: usize) -> (r: T) requires i < self@.len() ensures r == self@[i as int] { unimplemented!() }
    #[verifier::external_body]
    pub fn set(&mut self, i: usize, t: T) requires i < old(self)@.len() ensures final(self)@ == old(self)@.update(i as int, t) { unimplemented!() }
}
impl Lanes {
    /// ArrayView::into_owned / ArrayBase::view_mut on a lane bundle: same elements (logical model, no strides)
    #[verifier::external_body]
    pub fn into_owned(self) -> (r: Lanes) ensures r@ == self@ { unimplemented!() }
    #[verifier::external_body]
    pub fn view_mut(&mut self) -> (r: &mut Lanes) ensures r@ == old(self)@, final(self)@ == final(r)@ { unimplemented!() }
}
impl Arr1 {
    /// IndexMut on a 1-D array (target of rewrite R8)
    #[verifier::external_body]
    pub fn set(&mut self, i: usize, t: T) requires i < old(self)@.len() ensures final(self)@ == old(self)@.update(i as int, t) { unimplemented!() }
}
impl Lanes {
    #[verifier::external_body]
    pub fn fill(&mut self, v: T)
        ensures final(self)@.len() == old(self)@.len(), forall|i: int| 0 <= i < old(self)@.len() ==> #[trigger] final(self)@[i] == v { unimplemented!() }
}
/// `x.windows(n)`: producer of all length-n windows of a 1-D array
pub struct Windows { pub src: Ghost<Seq<T>>, pub n: Ghost<nat> }
impl Windows {
    pub open spec fn count(&self) -> nat { if self.src@.len() >= self.n@ { (self.src@.len() - self.n@ + 1) as nat } else { 0 } }
    #[verifier::external_body]
    pub fn len(&self) -> (r: usize) ensures r == self.count() { unimplemented!() }
    #[verifier::external_body]
    pub fn get(&self, i: usize) -> (r: Arr1) requires i < self.count() ensures r@ == self.src@.subrange(i as int, i as int + self.n@ as int) { unimplemented!() }
}
impl Arr1 {
    #[verifier::external_body]
    pub fn windows(&self, n: usize) -> (r: Windows) requires n >= 1 ensures r.src@ == self@, r.n@ == n { unimplemented!() }
    /// `a.slice_mut(s![1..-1])`: mutable view of all but the first and last element; writes land there and nowhere else
    #[verifier::external_body]
    pub fn slice_mut(&mut self, sl: SliceInner) -> (r: &mut Lanes)
        requires old(self)@.len() >= 2
        ensures r@ == old(self)@.subrange(1, old(self)@.len() - 1),
                final(self)@.len() == old(self)@.len(), final(self)@[0] == old(self)@[0], final(self)@[old(self)@.len() - 1] == old(self)@[old(self)@.len() - 1],
                final(self)@.subrange(1, old(self)@.len() - 1) == final(r)@,
    { unimplemented!() }
}
#[verifier::external_body]
pub fn zip_check4_w3(a: &Lanes, b: &Lanes, c: &Lanes, d: &Windows) ensures a@.len() == b@.len(), a@.len() == c@.len(), a@.len() == d.count() { unimplemented!() }
/// Dimension value returned by raw_dim(): the length of axis 0 and the number of lanes (product of the trailing axes)
pub struct DimShim { pub d: Ghost<Seq<usize>>, pub lanes: Ghost<nat> }
impl DimShim {
    /// IndexMut on a Dimension value (target of rewrite R8); the trailing axes are untouched
    #[verifier::external_body]
    pub fn set(&mut self, i: usize, v: usize) requires i < old(self).d@.len()
        ensures final(self).d@ == old(self).d@.update(i as int, v), final(self).lanes == old(self).lanes { unimplemented!() }
}
impl Clone for DimShim {
    fn clone(&self) -> (r: DimShim) ensures r == *self { DimShim { d: Ghost(self.d@), lanes: Ghost(self.lanes@) } }
}
/// `Array::zeros(shape)`: shape is a length (1-D array) or a Dimension value (rows x lanes)
pub struct Array;
pub trait ZerosShape: Sized { type Out; spec fn zeros_post(&self, r: &Self::Out) -> bool; }
impl ZerosShape for usize { type Out = Arr1;
    open spec fn zeros_post(&self, r: &Arr1) -> bool { r@.len() == *self && forall|i: int| 0 <= i < r@.len() ==> #[trigger] r@[i] == t_zero() } }
impl ZerosShape for DimShim { type Out = ArrD;
    open spec fn zeros_post(&self, r: &ArrD) -> bool {
        r.rows@.len() == self.d@[0] && r.dims@ == self.d@ && (forall|i: int| 0 <= i < r.rows@.len() ==> (#[trigger] r.rows@[i]).len() == self.lanes@)
        && (forall|i: int, j: int| 0 <= i < r.rows@.len() && 0 <= j < self.lanes@ ==> #[trigger] r.rows@[i][j] == t_zero()) } }
impl Array {
    #[verifier::external_body]
    pub fn zeros<S: ZerosShape>(sh: S) -> (r: S::Out) ensures sh.zeros_post(&r) { unimplemented!() }
}
impl IndexSpecImpl<usize> for DimShim {
    open spec fn index_req(&self, i: &usize) -> bool { *i < self.d@.len() }
}
impl core::ops::Index<usize> for DimShim { type Output = usize;
    #[verifier::external_body]
    fn index(&self, i: usize) -> (r: &usize) ensures *r == self.d@[i as int] { unimplemented!() }
}
// ndarray::Zip panics unless all producers have the same shape; a panic is modelled as divergence
#[verifier::external_body]
pub fn zip_check2(a: &Lanes, b: &Lanes) ensures a@.len() == b@.len() { unimplemented!() }
#[verifier::external_body]
pub fn zip_check3(a: &Lanes, b: &Lanes, c: &Lanes) ensures a@.len() == b@.len(), a@.len() == c@.len() { unimplemented!() }
#[verifier::external_body]
pub fn zip_check4(a: &Lanes, b: &Lanes, c: &Lanes, d: &Lanes) ensures a@.len() == b@.len(), a@.len() == c@.len(), a@.len() == d@.len() { unimplemented!() }
#[verifier::external_body]
pub fn zip_check5(a: &Lanes, b: &Lanes, c: &Lanes, d: &Lanes, e: &Lanes)
    ensures a@.len() == b@.len(), a@.len() == c@.len(), a@.len() == d@.len(), a@.len() == e@.len() { unimplemented!() }
#[verifier::external_body]
pub fn zip_check6(a: &Lanes, b: &Lanes, c: &Lanes, d: &Lanes, e: &Lanes, f: &Lanes)
    ensures a@.len() == b@.len(), a@.len() == c@.len(), a@.len() == d@.len(), a@.len() == e@.len(), a@.len() == f@.len() { unimplemented!() }

/// n-D data interpolated along axis 0: rows x lanes   (ArrayBase<Sd, D>, 1-D interpolation)
pub struct ArrD { pub rows: Ghost<Seq<Seq<T>>>, pub dims: Ghost<Seq<usize>> }
impl ArrD {
    pub open spec fn nrows(&self) -> int { self.rows@.len() as int }
    #[verifier::external_body]
    pub fn ndim(&self) -> (r: usize) ensures r == self.dims@.len() { unimplemented!() }
    #[verifier::external_body]
    pub fn shape(&self) -> (r: &[usize]) ensures r@ == self.dims@ { unimplemented!() }
    #[verifier::external_body]
    pub fn raw_dim(&self) -> (r: DimShim) ensures r.d@.len() >= 1, r.d@[0] == self.rows@.len(), self.rows@.len() > 0 ==> r.lanes@ == self.rows@[0].len(), r.d@ == self.dims@ { unimplemented!() }
    #[verifier::external_body]
    pub fn index_axis(&self, ax: Axis, i: usize) -> (r: Lanes)
        requires ax.0 == 0, i < self.rows@.len()
        ensures r@ == self.rows@[i as int] { unimplemented!() }
    /// `a.view_mut()`: a mutable view of the whole array
    #[verifier::external_body]
    pub fn view_mut(&mut self) -> (r: &mut ArrD) ensures *r == *old(self), *final(self) == *final(r) { unimplemented!() }
    /// mutable lane bundle of row i: writes through the returned view land in row i and nowhere else
    #[verifier::external_body]
    pub fn index_axis_mut(&mut self, ax: Axis, i: usize) -> (r: &mut Lanes)
        requires ax.0 == 0, i < old(self).rows@.len()
        ensures r@ == old(self).rows@[i as int], final(self).rows@ == old(self).rows@.update(i as int, final(r)@), final(self).dims == old(self).dims
    { unimplemented!() }
}

/// n-D data interpolated along axes 0 and 1: rows x cols x lanes  (2-D interpolation)
pub struct ArrD2 { pub cells: Ghost<Seq<Seq<Seq<T>>>>, pub dims: Ghost<Seq<usize>> }
pub struct ArrD2Row { pub cols: Ghost<Seq<Seq<T>>> }
impl ArrD2 {
    #[verifier::external_body]
    pub fn ndim(&self) -> (r: usize) ensures r == self.dims@.len() { unimplemented!() }
    #[verifier::external_body]
    pub fn shape(&self) -> (r: &[usize]) ensures r@ == self.dims@ { unimplemented!() }
    #[verifier::external_body]
    pub fn index_axis(&self, ax: Axis, i: usize) -> (r: ArrD2Row)
        requires ax.0 == 0, i < self.cells@.len()
        ensures r.cols@ == self.cells@[i as int] { unimplemented!() }
}
impl ArrD2Row {
    #[verifier::external_body]
    pub fn index_axis_move(self, ax: Axis, i: usize) -> (r: Lanes)
        requires ax.0 == 0, i < self.cols@.len()
        ensures r@ == self.cols@[i as int] { unimplemented!() }
}

} // verus!
