// ---- specs/thomas.rs : CubicSpline::thomas (tridiagonal solver) against recursive spec functions
pub struct ThomasShim { }
pub open spec fn all_fin1(s: Seq<T>) -> bool { forall|i: int| 0 <= i < s.len() ==> is_fin(#[trigger] s[i]) }
pub open spec fn all_fin2(rows: Seq<Seq<T>>) -> bool { forall|i: int, j: int| 0 <= i < rows.len() && 0 <= j < rows[i].len() ==> is_fin(#[trigger] rows[i][j]) }
/// the real values of a vector / of a rows x lanes array
pub open spec fn vals1(s: Seq<T>) -> Seq<real> { Seq::new(s.len(), |i: int| s[i]@) }
pub open spec fn vals2(rows: Seq<Seq<T>>) -> Seq<Seq<real>> { Seq::new(rows.len(), |i: int| vals1(rows[i])) }
/// pivot i of the forward sweep: p_0 = mid_0, p_i = mid_i - (low_i / p_{i-1}) * up_{i-1}
pub open spec fn piv(up: Seq<real>, mid: Seq<real>, low: Seq<real>, i: int) -> real decreases i {
    if i <= 0 { mid[0] } else { mid[i] - (low[i] / piv(up, mid, low, i - 1)) * up[i - 1] }
}
/// right-hand side of lane j after the forward sweep: f_0 = r_0, f_i = r_i - (low_i / p_{i-1}) * f_{i-1}
pub open spec fn fwd(up: Seq<real>, mid: Seq<real>, low: Seq<real>, rhs: Seq<Seq<real>>, j: int, i: int) -> real decreases i {
    if i <= 0 { rhs[0][j] } else { rhs[i][j] - (low[i] / piv(up, mid, low, i - 1)) * fwd(up, mid, low, rhs, j, i - 1) }
}
/// back substitution: k_{n-1} = f_{n-1} / p_{n-1}, k_i = (f_i - up_i * k_{i+1}) / p_i
pub open spec fn ksol(up: Seq<real>, mid: Seq<real>, low: Seq<real>, rhs: Seq<Seq<real>>, j: int, n: int, i: int) -> real decreases n - i {
    if i >= n - 1 { fwd(up, mid, low, rhs, j, n - 1) / piv(up, mid, low, n - 1) }
    else { (fwd(up, mid, low, rhs, j, i) - up[i] * ksol(up, mid, low, rhs, j, n, i + 1)) / piv(up, mid, low, i) }
}
pub open spec fn pivots_ok(up: Seq<real>, mid: Seq<real>, low: Seq<real>, n: int) -> bool { forall|i: int| 0 <= i < n ==> #[trigger] piv(up, mid, low, i) != 0real }
/// hypothesis of the value-level contract: finite inputs, no zero pivot (A_exact: a zero pivot is a division by zero)
pub open spec fn thomas_hyp(up: Seq<T>, mid: Seq<T>, low: Seq<T>, rhs: Seq<Seq<T>>, n: int) -> bool {
    all_fin1(up) && all_fin1(mid) && all_fin1(low) && all_fin2(rhs) && pivots_ok(vals1(up), vals1(mid), vals1(low), n)
}
/// row i of the ORIGINAL tridiagonal system, lane j, for a candidate solution kk (a function of the row index)
pub open spec fn row_lhs(up: Seq<real>, mid: Seq<real>, low: Seq<real>, n: int, i: int, km: real, ki: real, kp: real) -> real {
    (if i > 0 { low[i] * km } else { 0real }) + mid[i] * ki + (if i < n - 1 { up[i] * kp } else { 0real })
}

/// the eliminated system: p_i * k_i + up_i * k_{i+1} = f_i  (last row: p * k = f)
pub proof fn lemma_bidiag(up: Seq<real>, mid: Seq<real>, low: Seq<real>, rhs: Seq<Seq<real>>, j: int, n: int, i: int)
    requires n >= 1, 0 <= i < n, pivots_ok(up, mid, low, n)
    ensures
        i < n - 1 ==> piv(up, mid, low, i) * ksol(up, mid, low, rhs, j, n, i) + up[i] * ksol(up, mid, low, rhs, j, n, i + 1) == fwd(up, mid, low, rhs, j, i),
        i == n - 1 ==> piv(up, mid, low, i) * ksol(up, mid, low, rhs, j, n, i) == fwd(up, mid, low, rhs, j, i),
{
    let p = piv(up, mid, low, i);
    assert(p != 0real);
    if i < n - 1 {
        L_thomas_back(p, up[i], fwd(up, mid, low, rhs, j, i), ksol(up, mid, low, rhs, j, n, i + 1));
    } else {
        L_thomas_back_last(p, fwd(up, mid, low, rhs, j, i));
    }
}

/// C02 / C03, solver part, unbounded: what CubicSpline::thomas returns (ksol, by its contract) solves EVERY row of the
/// tridiagonal system it was given — for every n, every lane — provided no pivot of the elimination is zero.
pub proof fn thm_thomas_solves(up: Seq<real>, mid: Seq<real>, low: Seq<real>, rhs: Seq<Seq<real>>, j: int, n: int, i: int)
    requires n >= 1, 0 <= i < n, pivots_ok(up, mid, low, n)
    ensures
        row_lhs(up, mid, low, n, i,
                ksol(up, mid, low, rhs, j, n, i - 1), ksol(up, mid, low, rhs, j, n, i), ksol(up, mid, low, rhs, j, n, i + 1)) == rhs[i][j]
{
    lemma_bidiag(up, mid, low, rhs, j, n, i);
    if i > 0 {
        lemma_bidiag(up, mid, low, rhs, j, n, i - 1);
        let pp = piv(up, mid, low, i - 1);
        assert(pp != 0real);
        if i < n - 1 {
            L_thomas_row(low[i], mid[i], up[i], rhs[i][j], pp, up[i - 1], fwd(up, mid, low, rhs, j, i - 1),
                         ksol(up, mid, low, rhs, j, n, i - 1), ksol(up, mid, low, rhs, j, n, i), ksol(up, mid, low, rhs, j, n, i + 1));
        } else {
            L_thomas_row_last(low[i], mid[i], rhs[i][j], pp, up[i - 1], fwd(up, mid, low, rhs, j, i - 1),
                         ksol(up, mid, low, rhs, j, n, i - 1), ksol(up, mid, low, rhs, j, n, i));
        }
    }
}

// ---- uniqueness: with non-zero pivots, ANY solution of the rows equals what thomas returns
pub open spec fn row_holds(up: Seq<real>, mid: Seq<real>, low: Seq<real>, rhs: Seq<Seq<real>>, j: int, n: int, kk: Seq<real>, i: int) -> bool {
    row_lhs(up, mid, low, n, i, kk[i - 1], kk[i], kk[i + 1]) == rhs[i][j]
}
pub open spec fn solves_rows(up: Seq<real>, mid: Seq<real>, low: Seq<real>, rhs: Seq<Seq<real>>, j: int, n: int, kk: Seq<real>) -> bool {
    forall|i: int| 0 <= i < n ==> #[trigger] row_holds(up, mid, low, rhs, j, n, kk, i)
}
pub proof fn lemma_elim(up: Seq<real>, mid: Seq<real>, low: Seq<real>, rhs: Seq<Seq<real>>, j: int, n: int, kk: Seq<real>, i: int)
    requires n >= 1, 0 <= i < n, pivots_ok(up, mid, low, n), solves_rows(up, mid, low, rhs, j, n, kk)
    ensures
        i < n - 1 ==> piv(up, mid, low, i) * kk[i] + up[i] * kk[i + 1] == fwd(up, mid, low, rhs, j, i),
        i == n - 1 ==> piv(up, mid, low, i) * kk[i] == fwd(up, mid, low, rhs, j, i),
    decreases i
{
    assert(row_holds(up, mid, low, rhs, j, n, kk, i));
    if i > 0 {
        lemma_elim(up, mid, low, rhs, j, n, kk, i - 1);
        let pp = piv(up, mid, low, i - 1);
        assert(pp != 0real);
        if i < n - 1 {
            L_thomas_elim_row(low[i], mid[i], up[i], rhs[i][j], pp, up[i - 1], fwd(up, mid, low, rhs, j, i - 1), kk[i - 1], kk[i], kk[i + 1]);
        } else {
            L_thomas_elim_row_last(low[i], mid[i], rhs[i][j], pp, up[i - 1], fwd(up, mid, low, rhs, j, i - 1), kk[i - 1], kk[i]);
        }
    }
}
pub proof fn thm_thomas_unique(up: Seq<real>, mid: Seq<real>, low: Seq<real>, rhs: Seq<Seq<real>>, j: int, n: int, kk: Seq<real>, i: int)
    requires n >= 1, 0 <= i < n, pivots_ok(up, mid, low, n), solves_rows(up, mid, low, rhs, j, n, kk)
    ensures kk[i] == ksol(up, mid, low, rhs, j, n, i)
    decreases n - i
{
    lemma_elim(up, mid, low, rhs, j, n, kk, i);
    let p = piv(up, mid, low, i);
    assert(p != 0real);
    if i < n - 1 {
        thm_thomas_unique(up, mid, low, rhs, j, n, kk, i + 1);
        L_thomas_back_unique(p, up[i], fwd(up, mid, low, rhs, j, i), kk[i], kk[i + 1]);
    } else {
        L_thomas_back_unique_last(p, fwd(up, mid, low, rhs, j, i), kk[i]);
    }
}
