// ---- specs/periodic.rs : the Periodic arms of CubicSpline::solve_for_k as closed-form spec functions
/// interior right-hand side entry (rows 1..n-2), the same formula solve_for_k uses for every end condition
pub open spec fn rhs_int(x: Seq<T>, y: Seq<Seq<T>>, i: int, j: int) -> real {
    3real * (hx(x, i) * (y[i][j]@ - y[i - 1][j]@) / hx(x, i - 1) + hx(x, i - 1) * (y[i + 1][j]@ - y[i][j]@) / hx(x, i))
}
pub open spec fn slope(x: Seq<T>, y: Seq<Seq<T>>, i: int, j: int) -> real { (y[i + 1][j]@ - y[i][j]@) / hx(x, i) }
// condensed cyclic system: unknowns k_0 .. k_{n-3}; k_{n-2} is eliminated, k_{n-1} = k_0
pub open spec fn per_up(x: Seq<T>, n: int) -> Seq<real> { Seq::new((n - 2) as nat, |i: int| if i == 0 { hx(x, n - 2) } else { hx(x, i - 1) }) }
pub open spec fn per_mid(x: Seq<T>, n: int) -> Seq<real> { Seq::new((n - 2) as nat, |i: int| if i == 0 { 2real * (hx(x, n - 2) + hx(x, 0)) } else { 2real * (hx(x, i) + hx(x, i - 1)) }) }
pub open spec fn per_low(x: Seq<T>, n: int) -> Seq<real> { Seq::new((n - 2) as nat, |i: int| if i == 0 { 0real } else { hx(x, i) }) }
pub open spec fn per_rhs_entry(x: Seq<T>, y: Seq<Seq<T>>, n: int, i: int, j: int) -> real {
    if i == 0 { (slope(x, y, n - 2, j) * hx(x, 0) + slope(x, y, 0, j) * hx(x, n - 2)) * 3real }
    else if i == n - 2 { (slope(x, y, n - 3, j) * hx(x, n - 2) + slope(x, y, n - 2, j) * hx(x, n - 3)) * 3real }
    else { rhs_int(x, y, i, j) }
}
pub open spec fn per_rhs1(x: Seq<T>, y: Seq<Seq<T>>, n: int, nl: int) -> Seq<Seq<real>> {
    Seq::new((n - 2) as nat, |i: int| Seq::new(nl as nat, |j: int| per_rhs_entry(x, y, n, i, j)))
}
pub open spec fn per_rhs2(x: Seq<T>, n: int, nl: int) -> Seq<Seq<real>> {
    Seq::new((n - 2) as nat, |i: int| Seq::new(nl as nat, |j: int| if i == n - 3 { -hx(x, n - 4) } else if i == 0 { -hx(x, 0) } else { 0real }))
}
pub open spec fn per_k1(x: Seq<T>, y: Seq<Seq<T>>, n: int, nl: int, j: int, i: int) -> real { ksol(per_up(x, n), per_mid(x, n), per_low(x, n), per_rhs1(x, y, n, nl), j, n - 2, i) }
pub open spec fn per_k2(x: Seq<T>, n: int, nl: int, j: int, i: int) -> real { ksol(per_up(x, n), per_mid(x, n), per_low(x, n), per_rhs2(x, n, nl), j, n - 2, i) }
pub open spec fn per_den(x: Seq<T>, n: int, nl: int, j: int) -> real {
    per_k2(x, n, nl, j, 0) * hx(x, n - 3) + per_k2(x, n, nl, j, n - 3) * hx(x, n - 2) + 2real * (hx(x, n - 2) + hx(x, n - 3))
}
/// the eliminated slope k_{n-2}
pub open spec fn per_km(x: Seq<T>, y: Seq<Seq<T>>, n: int, nl: int, j: int) -> real {
    (per_rhs_entry(x, y, n, n - 2, j) - per_k1(x, y, n, nl, j, 0) * hx(x, n - 3) - per_k1(x, y, n, nl, j, n - 3) * hx(x, n - 2)) / per_den(x, n, nl, j)
}
/// slope at knot i of the periodic spline, as solve_for_k returns it (n >= 4)
pub open spec fn kper(x: Seq<T>, y: Seq<Seq<T>>, n: int, nl: int, j: int, i: int) -> real {
    if i <= n - 3 { per_k1(x, y, n, nl, j, i) + per_km(x, y, n, nl, j) * per_k2(x, n, nl, j, i) }
    else if i == n - 2 { per_km(x, y, n, nl, j) }
    else { per_k1(x, y, n, nl, j, 0) + per_km(x, y, n, nl, j) * per_k2(x, n, nl, j, 0) }
}
/// the 3-point periodic spline: one slope for all knots
pub open spec fn kper3(x: Seq<T>, y: Seq<Seq<T>>, j: int) -> real {
    (slope(x, y, 0, j) / hx(x, 0) + slope(x, y, 1, j) / hx(x, 1)) / (1real / hx(x, 0) + 1real / hx(x, 1))
}
/// hypothesis of the value-level contract: finite inputs on a strictly increasing axis, no zero pivot in the condensed system,
/// non-zero denominator of the eliminated slope
pub open spec fn per_hyp(x: Seq<T>, y: Seq<Seq<T>>, n: int, nl: int) -> bool {
    axis_incr(x) && all_fin2(y) && pivots_ok(per_up(x, n), per_mid(x, n), per_low(x, n), n - 2)
    && forall|j: int| 0 <= j < nl ==> #[trigger] per_den(x, n, nl, j) != 0real
}
