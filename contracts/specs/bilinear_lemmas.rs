// ---- specs/bilinear_lemmas.rs : C04 / C20 as theorems over the contract of Bilinear::interp_into
/// C04: weight form, node reproduction, grid lines, transpose symmetry — all for the value the contract pins down
pub proof fn thm_C04<S>(it: &Interp2D<S>, i: int, k: int, x: T, y: T, j: int, r: T)
    requires it.wf(), 0 <= i <= it.x@.len() - 2, 0 <= k <= it.y@.len() - 2, 0 <= j < it.lanes(), bilinear_ok(r, it, i, k, x, y, j)
    ensures ({
        let c = it.data.cells@;
        let (x1, x2, y1, y2) = (it.x@[i]@, it.x@[i + 1]@, it.y@[k]@, it.y@[k + 1]@);
        let (z11, z12, z21, z22) = (c[i][k][j]@, c[i][k + 1][j]@, c[i + 1][k][j]@, c[i + 1][k + 1][j]@);
        let v = r@;
        &&& v == bilin_w(x1, x2, y1, y2, z11, z12, z21, z22, x@, y@)
        &&& (x@ == x1 && y@ == y1) ==> v == z11
        &&& (x@ == x1 && y@ == y2) ==> v == z12
        &&& (x@ == x2 && y@ == y1) ==> v == z21
        &&& (x@ == x2 && y@ == y2) ==> v == z22
        &&& y@ == y1 ==> v == line(x1, z11, x2, z21, x@)
        &&& y@ == y2 ==> v == line(x1, z12, x2, z22, x@)
        &&& x@ == x1 ==> v == line(y1, z11, y2, z12, y@)
        &&& x@ == x2 ==> v == line(y1, z21, y2, z22, y@)
        &&& v == bilin(y1, y2, x1, x2, z11, z21, z12, z22, y@, x@)
    })
{
    let c = it.data.cells@;
    let (x1, x2, y1, y2) = (it.x@[i]@, it.x@[i + 1]@, it.y@[k]@, it.y@[k + 1]@);
    let (z11, z12, z21, z22) = (c[i][k][j]@, c[i][k + 1][j]@, c[i + 1][k][j]@, c[i + 1][k + 1][j]@);
    assert(is_fin(it.x@[i]) && is_fin(it.x@[i + 1]) && is_fin(it.y@[k]) && is_fin(it.y@[k + 1]));
    assert(x1 < x2) by { assert(it.x@[i]@ < it.x@[i + 1]@); }
    assert(y1 < y2) by { assert(it.y@[k]@ < it.y@[k + 1]@); }
    L_bilin_is_weight_form(x1, x2, y1, y2, z11, z12, z21, z22, x@, y@);
    L_bilin_node_11(x1, x2, y1, y2, z11, z12, z21, z22);
    L_bilin_node_12(x1, x2, y1, y2, z11, z12, z21, z22);
    L_bilin_node_21(x1, x2, y1, y2, z11, z12, z21, z22);
    L_bilin_node_22(x1, x2, y1, y2, z11, z12, z21, z22);
    L_bilin_on_x_line_1(x1, x2, y1, y2, z11, z12, z21, z22, x@);
    L_bilin_on_x_line_2(x1, x2, y1, y2, z11, z12, z21, z22, x@);
    L_bilin_on_y_line_1(x1, x2, y1, y2, z11, z12, z21, z22, y@);
    L_bilin_on_y_line_2(x1, x2, y1, y2, z11, z12, z21, z22, y@);
    L_bilin_transpose(x1, x2, y1, y2, z11, z12, z21, z22, x@, y@);
}

pub open spec fn labelled2<S>(it: &Interp2D<S>, x: T, y: T) -> bool {
    &&& x.deps@ =~= set![Cell::Query] && y.deps@ =~= set![Cell::QueryY]
    &&& forall|i: int| 0 <= i < it.x@.len() ==> (#[trigger] it.x@[i]).deps@ =~= set![Cell::Axis(i)]
    &&& forall|k: int| 0 <= k < it.y@.len() ==> (#[trigger] it.y@[k]).deps@ =~= set![Cell::AxisY(k)]
    &&& forall|i: int, k: int, j: int| 0 <= i < it.data.cells@.len() && 0 <= k < it.data.cells@[i].len() && 0 <= j < it.data.cells@[i][k].len()
            ==> (#[trigger] it.data.cells@[i][k][j]).deps@ =~= set![Cell::Data(i, k, j)]
}
/// C20 / C08 (Bilinear): lane j depends on the query, 2+2 axis values and the four corner values of lane j only
pub proof fn thm_C20_bilinear<S>(it: &Interp2D<S>, i: int, k: int, x: T, y: T, j: int, r: T)
    requires it.wf(), labelled2(it, x, y), 0 <= i <= it.x@.len() - 2, 0 <= k <= it.y@.len() - 2, 0 <= j < it.lanes(), bilinear_ok(r, it, i, k, x, y, j)
    ensures r.deps@.subset_of(set![Cell::Query, Cell::QueryY, Cell::Axis(i), Cell::Axis(i + 1), Cell::AxisY(k), Cell::AxisY(k + 1),
                Cell::Data(i, k, j), Cell::Data(i, k + 1, j), Cell::Data(i + 1, k, j), Cell::Data(i + 1, k + 1, j)])
{
    let c = it.data.cells@;
    assert(c[i].len() == it.y@.len() && c[i + 1].len() == it.y@.len());
    assert(c[i][k].len() == c[0][0].len() && c[i][k + 1].len() == c[0][0].len() && c[i + 1][k].len() == c[0][0].len() && c[i + 1][k + 1].len() == c[0][0].len());
}
