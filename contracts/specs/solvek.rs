// ---- specs/solvek.rs : CubicSpline::solve_for_k — the tridiagonal system as closed-form spec functions of (axis, data, end conditions)

/// width of interval i of the axis
pub open spec fn hx(x: Seq<T>, i: int) -> real { x[i + 1]@ - x[i]@ }
/// end condition in effect after SingleBoundary::specialize: tag 0 not-a-knot, 1 first derivative = value, 2 second derivative = value
pub open spec fn eff_tag(b: SingleBoundary<T>) -> int {
    match b { SingleBoundary::NotAKnot => 0, SingleBoundary::Natural => 2, SingleBoundary::Clamped => 1, SingleBoundary::FirstDeriv(_) => 1, SingleBoundary::SecondDeriv(_) => 2 }
}
pub open spec fn eff_val(b: SingleBoundary<T>) -> real {
    match b { SingleBoundary::FirstDeriv(v) => v@, SingleBoundary::SecondDeriv(v) => v@, _ => 0real }
}
pub open spec fn eff_fin(b: SingleBoundary<T>) -> bool {
    match b { SingleBoundary::FirstDeriv(v) => is_fin(v), SingleBoundary::SecondDeriv(v) => is_fin(v), _ => true }
}
pub open spec fn ib_is_sided(b: InternalBoundary<T>) -> bool { !(b is Periodic) }
pub open spec fn ib_left(b: InternalBoundary<T>) -> SingleBoundary<T> {
    match b { InternalBoundary::NotAKnot => SingleBoundary::NotAKnot, InternalBoundary::Natural => SingleBoundary::Natural, InternalBoundary::Clamped => SingleBoundary::Clamped,
              InternalBoundary::Mixed { left, right } => left, InternalBoundary::Periodic => SingleBoundary::NotAKnot }
}
pub open spec fn ib_right(b: InternalBoundary<T>) -> SingleBoundary<T> {
    match b { InternalBoundary::NotAKnot => SingleBoundary::NotAKnot, InternalBoundary::Natural => SingleBoundary::Natural, InternalBoundary::Clamped => SingleBoundary::Clamped,
              InternalBoundary::Mixed { left, right } => right, InternalBoundary::Periodic => SingleBoundary::NotAKnot }
}

// ---- the system A k = rhs that solve_for_k hands to the solver (row 0 / row n-1 depend on the end conditions)
pub open spec fn up_entry(x: Seq<T>, bl: SingleBoundary<T>, n: int, i: int) -> real {
    if i == 0 { if eff_tag(bl) == 0 { x[2]@ - x[0]@ } else if eff_tag(bl) == 1 { 0real } else { hx(x, 0) } }
    else if i == n - 1 { 0real } else { hx(x, i - 1) }
}
pub open spec fn mid_entry(x: Seq<T>, bl: SingleBoundary<T>, br: SingleBoundary<T>, n: int, i: int) -> real {
    if i == 0 { if eff_tag(bl) == 0 { hx(x, 1) } else if eff_tag(bl) == 1 { 1real } else { 2real * hx(x, 0) } }
    else if i == n - 1 { if eff_tag(br) == 0 { hx(x, n - 3) } else if eff_tag(br) == 1 { 1real } else { 2real * hx(x, n - 2) } }
    else { 2real * (hx(x, i) + hx(x, i - 1)) }
}
pub open spec fn low_entry(x: Seq<T>, br: SingleBoundary<T>, n: int, i: int) -> real {
    if i == 0 { 0real }
    else if i == n - 1 { if eff_tag(br) == 0 { x[n - 1]@ - x[n - 3]@ } else if eff_tag(br) == 1 { 0real } else { hx(x, n - 2) } }
    else { hx(x, i) }
}
pub open spec fn rhs_entry(x: Seq<T>, y: Seq<Seq<T>>, bl: SingleBoundary<T>, br: SingleBoundary<T>, n: int, i: int, j: int) -> real {
    if i == 0 {
        if eff_tag(bl) == 0 {
            (((hx(x, 0) + 2real * (x[2]@ - x[0]@)) * hx(x, 1)) * (y[1][j]@ - y[0][j]@) / hx(x, 0) + (hx(x, 0) * hx(x, 0)) * (y[2][j]@ - y[1][j]@) / hx(x, 1)) / (x[2]@ - x[0]@)
        } else if eff_tag(bl) == 1 { eff_val(bl) }
        else { 3real * (y[1][j]@ - y[0][j]@) - eff_val(bl) * (hx(x, 0) * hx(x, 0)) / 2real }
    } else if i == n - 1 {
        if eff_tag(br) == 0 {
            ((hx(x, n - 2) * hx(x, n - 2)) * (y[n - 2][j]@ - y[n - 3][j]@) / hx(x, n - 3)
                + ((2real * (x[n - 1]@ - x[n - 3]@) + hx(x, n - 2)) * hx(x, n - 3)) * (y[n - 1][j]@ - y[n - 2][j]@) / hx(x, n - 2)) / (x[n - 1]@ - x[n - 3]@)
        } else if eff_tag(br) == 1 { eff_val(br) }
        else { 3real * (y[n - 1][j]@ - y[n - 2][j]@) + eff_val(br) * (hx(x, n - 2) * hx(x, n - 2)) / 2real }
    } else {
        3real * (hx(x, i) * (y[i][j]@ - y[i - 1][j]@) / hx(x, i - 1) + hx(x, i - 1) * (y[i + 1][j]@ - y[i][j]@) / hx(x, i))
    }
}
pub open spec fn sys_up(x: Seq<T>, bl: SingleBoundary<T>, n: int) -> Seq<real> { Seq::new(n as nat, |i: int| up_entry(x, bl, n, i)) }
pub open spec fn sys_mid(x: Seq<T>, bl: SingleBoundary<T>, br: SingleBoundary<T>, n: int) -> Seq<real> { Seq::new(n as nat, |i: int| mid_entry(x, bl, br, n, i)) }
pub open spec fn sys_low(x: Seq<T>, br: SingleBoundary<T>, n: int) -> Seq<real> { Seq::new(n as nat, |i: int| low_entry(x, br, n, i)) }
pub open spec fn sys_rhs(x: Seq<T>, y: Seq<Seq<T>>, bl: SingleBoundary<T>, br: SingleBoundary<T>, n: int, nl: int) -> Seq<Seq<real>> {
    Seq::new(n as nat, |i: int| Seq::new(nl as nat, |j: int| rhs_entry(x, y, bl, br, n, i, j)))
}
/// strictly increasing finite axis (what the builders validate before any strategy runs: C10 / C12)
pub open spec fn axis_incr(x: Seq<T>) -> bool {
    all_fin1(x) && forall|i: int| 0 <= i < x.len() - 1 ==> #[trigger] hx(x, i) > 0real
}
/// hypothesis of the value-level contract of solve_for_k
pub open spec fn solve_hyp(x: Seq<T>, y: Seq<Seq<T>>, b: InternalBoundary<T>, n: int) -> bool {
    axis_incr(x) && all_fin2(y) && eff_fin(ib_left(b)) && eff_fin(ib_right(b))
    && pivots_ok(sys_up(x, ib_left(b), n), sys_mid(x, ib_left(b), ib_right(b), n), sys_low(x, ib_right(b), n), n)
}
/// the paths this contract speaks about: a sided (non-periodic) end condition, except the 3-point not-a-knot/not-a-knot parabola
pub open spec fn solve_covered(b: InternalBoundary<T>, n: int) -> bool {
    ib_is_sided(b) && !(n == 3 && ib_left(b) is NotAKnot && ib_right(b) is NotAKnot)
}
/// finite inputs on a strictly increasing axis
pub open spec fn solve_inputs_ok(x: Seq<T>, y: Seq<Seq<T>>, b: InternalBoundary<T>) -> bool {
    axis_incr(x) && all_fin2(y) && eff_fin(ib_left(b)) && eff_fin(ib_right(b))
}
/// lanes 0..upto of a right-hand-side row hold their spec values
pub open spec fn rhs_lane_ok(lane: Seq<T>, upto: int, x: Seq<T>, y: Seq<Seq<T>>, bl: SingleBoundary<T>, br: SingleBoundary<T>, n: int, i: int) -> bool {
    forall|jj: int| 0 <= jj < upto ==> (#[trigger] lane[jj])@ == rhs_entry(x, y, bl, br, n, i, jj) && is_fin(lane[jj])
}
