// ---- specs/calc_individual.rs : the `Individual` arm of CubicSpline::calc_coefficients (per-lane end conditions)
pub enum BuilderError { NotEnoughData(String), Monotonic(String), ShapeError(String), ValueError(String) }
/// variant list is compared with the real `BoundaryCondition` on every run; here the per-lane array is visible
pub enum BoundaryCondition { NotAKnot, Natural, Clamped, Periodic, Individual(ArrB) }
pub struct CubicSpline { pub extrapolate: bool, pub boundary: BoundaryCondition }
impl ArrD {
    /// `a.view()`: a read-only view of the whole array
    #[verifier::external_body]
    pub fn view(&self) -> (r: ArrD) ensures r == *self { unimplemented!() }
}
impl ArrB {
    #[verifier::external_body]
    pub fn view(&self) -> (r: ArrB) ensures r == *self { unimplemented!() }
    #[verifier::external_body]
    pub fn raw_dim(&self) -> (r: DimShim) ensures r.d@ == self.dims@ { unimplemented!() }
}
/// `Dim == Dim` compares the extents
impl PartialEqSpecImpl for DimShim {
    open spec fn obeys_eq_spec() -> bool { false }
    open spec fn eq_spec(&self, other: &DimShim) -> bool { self.d@ == other.d@ }
}
impl PartialEq for DimShim {
    #[verifier::external_body]
    fn eq(&self, other: &DimShim) -> (r: bool) ensures r == (self.d@ == other.d@) { unimplemented!() }
}
/// type invariant of the per-lane array in the logical model
pub open spec fn arrb_wf(b: ArrB) -> bool {
    b.dims@.len() >= 1 && b.dims@[0] == b.rows@.len() && forall|q: int| 0 <= q < b.rows@.len() ==> (#[trigger] b.rows@[q]).len() == ntrail(b.dims@)
}
/// the required shape of the per-lane array: (1, trailing dims of the data)
pub open spec fn indiv_shape_ok(b: ArrB, dims: Seq<usize>) -> bool { b.dims@ == dims.update(0, 1usize) }
/// coefficients of every piece of every lane from slopes kk that are, lane by lane, what solve_for_k returns for that lane alone under its own condition
pub open spec fn indiv_coefs_ok(ca: Seq<Seq<T>>, cb: Seq<Seq<T>>, kk: Seq<Seq<T>>, x: Seq<T>, y: Seq<Seq<T>>, brow: Seq<RowBoundary<T>>, n: int, nl: int) -> bool {
    &&& kk.len() == n
    &&& forall|j: int| 0 <= j < nl ==> lane_ok(#[trigger] colv(kk, j), x, colv(y, j), brow[j])
    &&& forall|i: int, j: int| 0 <= i < n - 1 && 0 <= j < nl ==> coef_pair_ok(#[trigger] ca[i][j], cb[i][j], kk, x, y, i, j)
}
pub open spec fn coef_pair_ok(a: T, b: T, kk: Seq<Seq<T>>, x: Seq<T>, y: Seq<Seq<T>>, i: int, j: int) -> bool {
    a@ == kk[i][j]@ * (x[i + 1]@ - x[i]@) - (y[i + 1][j]@ - y[i][j]@) && b@ == (y[i + 1][j]@ - y[i][j]@) - kk[i + 1][j]@ * (x[i + 1]@ - x[i]@)
}
pub proof fn lemma_update0_same(a: Seq<usize>, b: Seq<usize>)
    requires a.len() >= 1, b == a.update(0, 1usize)
    ensures b.len() == a.len(), b[0] == 1, forall|t: int| 1 <= t < a.len() ==> b[t] == a[t]
{
}
/// the per-lane array of an `Individual` condition
pub open spec fn indiv_arr(b: BoundaryCondition) -> ArrB { match b { BoundaryCondition::Individual(a) => a, _ => arbitrary() } }
