// ---- specs/arrayops.rs : ASSUMED contracts for ndarray's whole-array arithmetic, slicing along axis 0 and `assign`, as used by the
//      Periodic arms of CubicSpline::solve_for_k (logical model: an owned lane bundle is a `Lanes`, an owned rows x lanes array an `ArrD`;
//      element-wise operators apply the scalar operator lane by lane; a lane bundle broadcasts along axis 0)

// One generic impl per (operator, left operand type): the right operand type selects the meaning through a trait (Verus cannot
// choose between two impls of the same operator trait for one Self type).
pub open spec fn rows_scaled(rows: Seq<Seq<T>>, l: Seq<T>) -> Seq<Seq<T>> { Seq::new(rows.len(), |i: int| Seq::new(l.len(), |j: int| t_mul(l[j], rows[i][j]))) }
pub open spec fn rows_added(a: Seq<Seq<T>>, b: Seq<Seq<T>>, nl: int) -> Seq<Seq<T>> { Seq::new(a.len(), |i: int| Seq::new(nl as nat, |j: int| t_add(a[i][j], b[i][j]))) }
/// right operand of `lanes OP rhs`
pub trait LaneRhs: Sized {
    type Out;
    spec fn fits(&self, l: Seq<T>) -> bool;
    spec fn post(&self, op: int, l: Seq<T>, r: &Self::Out) -> bool;
}
pub open spec fn t_op(op: int, a: T, b: T) -> T { if op == 0 { t_add(a, b) } else if op == 1 { t_sub(a, b) } else if op == 2 { t_mul(a, b) } else { t_div(a, b) } }
impl LaneRhs for T { type Out = Lanes;
    open spec fn fits(&self, l: Seq<T>) -> bool { true }
    open spec fn post(&self, op: int, l: Seq<T>, r: &Lanes) -> bool { r@ == Seq::new(l.len(), |j: int| t_op(op, l[j], *self)) }
}
impl LaneRhs for Lanes { type Out = Lanes;
    open spec fn fits(&self, l: Seq<T>) -> bool { self@.len() == l.len() }
    open spec fn post(&self, op: int, l: Seq<T>, r: &Lanes) -> bool { r@ == Seq::new(l.len(), |j: int| t_op(op, l[j], self@[j])) }
}
impl<'b> LaneRhs for &'b Lanes { type Out = Lanes;
    open spec fn fits(&self, l: Seq<T>) -> bool { self@.len() == l.len() }
    open spec fn post(&self, op: int, l: Seq<T>, r: &Lanes) -> bool { r@ == Seq::new(l.len(), |j: int| t_op(op, l[j], self@[j])) }
}
impl LaneRhs for ArrD { type Out = ArrD;
    open spec fn fits(&self, l: Seq<T>) -> bool { rect(self.rows@, l.len() as int) }
    open spec fn post(&self, op: int, l: Seq<T>, r: &ArrD) -> bool { op == 2 && r.rows@ == rows_scaled(self.rows@, l) }
}
macro_rules! lane_op { ($tr:ident, $sp:ident, $f:ident, $req:ident, $spec:ident, $obeys:ident, $op:expr) => {
verus! {
impl<R: LaneRhs> $sp<R> for Lanes {
    open spec fn $obeys() -> bool { false }
    open spec fn $req(self, rhs: R) -> bool { rhs.fits(self@) }
    open spec fn $spec(self, rhs: R) -> R::Out { arbitrary() }
}
impl<R: LaneRhs> core::ops::$tr<R> for Lanes { type Output = R::Out;
    #[verifier::external_body]
    fn $f(self, rhs: R) -> (r: R::Out) ensures rhs.post($op, self@, &r) { unimplemented!() }
}
impl<'a, R: LaneRhs> $sp<R> for &'a Lanes {
    open spec fn $obeys() -> bool { false }
    open spec fn $req(self, rhs: R) -> bool { rhs.fits(self@) }
    open spec fn $spec(self, rhs: R) -> R::Out { arbitrary() }
}
impl<'a, R: LaneRhs> core::ops::$tr<R> for &'a Lanes { type Output = R::Out;
    #[verifier::external_body]
    fn $f(self, rhs: R) -> (r: R::Out) ensures rhs.post($op, self@, &r) { unimplemented!() }
}
}
} }
lane_op!(Add, AddSpecImpl, add, add_req, add_spec, obeys_add_spec, 0int);
lane_op!(Sub, SubSpecImpl, sub, sub_req, sub_spec, obeys_sub_spec, 1int);
lane_op!(Mul, MulSpecImpl, mul, mul_req, mul_spec, obeys_mul_spec, 2int);
lane_op!(Div, DivSpecImpl, div, div_req, div_spec, obeys_div_spec, 3int);
impl AddSpecImpl<ArrD> for ArrD {
    open spec fn obeys_add_spec() -> bool { false }
    open spec fn add_req(self, rhs: ArrD) -> bool { self.rows@.len() == rhs.rows@.len() && self.rows@.len() > 0 && rect(self.rows@, self.rows@[0].len() as int) && rect(rhs.rows@, self.rows@[0].len() as int) }
    open spec fn add_spec(self, rhs: ArrD) -> ArrD { arbitrary() }
}
impl core::ops::Add<ArrD> for ArrD { type Output = ArrD;
    #[verifier::external_body]
    fn add(self, rhs: ArrD) -> (r: ArrD) ensures r.rows@ == rows_added(self.rows@, rhs.rows@, self.rows@[0].len() as int) { unimplemented!() }
}
// comparison of lane bundles (only used to decide whether the Periodic arm returns an error)
/// ndarray compares element by element with the scalar `==` (IEEE: NaN differs from everything)
pub open spec fn lanes_ne(a: Seq<T>, b: Seq<T>) -> bool { a.len() != b.len() || exists|j: int| 0 <= j < a.len() && !t_eq(#[trigger] a[j], b[j]) }
impl PartialEqSpecImpl for Lanes {
    open spec fn obeys_eq_spec() -> bool { false }
    open spec fn eq_spec(&self, other: &Lanes) -> bool { !lanes_ne(self@, other@) }
}
impl PartialEq for Lanes {
    #[verifier::external_body]
    fn eq(&self, other: &Lanes) -> (r: bool) ensures r == !lanes_ne(self@, other@) { unimplemented!() }
}
// slicing along axis 0:  Slice::from(0..-k)  keeps all but the last k entries / rows
pub struct Slice { pub start: isize, pub end: isize }
impl Slice {
    pub fn from(r: core::ops::Range<isize>) -> (s: Slice) ensures s.start == r.start, s.end == r.end { Slice { start: r.start, end: r.end } }
}
impl Arr1 {
    #[verifier::external_body]
    pub fn slice_axis_inplace(&mut self, ax: Axis, s: Slice)
        requires ax.0 == 0, s.start == 0, s.end < 0, old(self)@.len() + s.end >= 0
        ensures final(self)@ == old(self)@.subrange(0, old(self)@.len() + s.end) { unimplemented!() }
    #[verifier::external_body]
    pub fn clone(&self) -> (r: Arr1) ensures r@ == self@ { unimplemented!() }
}
impl ArrD {
    #[verifier::external_body]
    pub fn slice_axis_inplace(&mut self, ax: Axis, s: Slice)
        requires ax.0 == 0, s.start == 0, s.end < 0, old(self).rows@.len() + s.end >= 0
        ensures final(self).rows@ == old(self).rows@.subrange(0, old(self).rows@.len() + s.end) { unimplemented!() }
    /// read-only view of all but the last rows, and its owned copy
    #[verifier::external_body]
    pub fn slice_axis(&self, ax: Axis, s: Slice) -> (r: ArrD)
        requires ax.0 == 0, s.start == 0, s.end < 0, self.rows@.len() + s.end >= 0
        ensures r.rows@ == self.rows@.subrange(0, self.rows@.len() + s.end) { unimplemented!() }
    #[verifier::external_body]
    pub fn to_owned(&self) -> (r: ArrD) ensures r.rows@ == self.rows@ { unimplemented!() }
    /// mutable view of all but the last rows: writes land there and nowhere else
    #[verifier::external_body]
    pub fn slice_axis_mut(&mut self, ax: Axis, s: Slice) -> (r: &mut ArrD)
        requires ax.0 == 0, s.start == 0, s.end < 0, old(self).rows@.len() + s.end >= 0
        ensures r.rows@ == old(self).rows@.subrange(0, old(self).rows@.len() + s.end),
                final(self).rows@.len() == old(self).rows@.len(),
                final(self).rows@.subrange(0, old(self).rows@.len() + s.end) == final(r).rows@,
                forall|i: int| old(self).rows@.len() + s.end <= i < old(self).rows@.len() ==> #[trigger] final(self).rows@[i] == old(self).rows@[i],
    { unimplemented!() }
    /// `a.assign(&b)` with b of the same shape, or b one dimension smaller (broadcast along axis 0)
    #[verifier::external_body]
    pub fn assign<S: AssignSrc>(&mut self, src: &S)
        requires src.fits(old(self).rows@)
        ensures final(self).rows@ == src.assigned(old(self).rows@) { unimplemented!() }
}
pub trait AssignSrc { spec fn fits(&self, rows: Seq<Seq<T>>) -> bool; spec fn assigned(&self, rows: Seq<Seq<T>>) -> Seq<Seq<T>>; }
impl AssignSrc for ArrD {
    open spec fn fits(&self, rows: Seq<Seq<T>>) -> bool { self.rows@.len() == rows.len() }
    open spec fn assigned(&self, rows: Seq<Seq<T>>) -> Seq<Seq<T>> { self.rows@ }
}
impl AssignSrc for Lanes {
    open spec fn fits(&self, rows: Seq<Seq<T>>) -> bool { rect(rows, self@.len() as int) }
    open spec fn assigned(&self, rows: Seq<Seq<T>>) -> Seq<Seq<T>> { Seq::new(rows.len(), |i: int| self@) }
}
impl Lanes {
    #[verifier::external_body]
    pub fn assign(&mut self, src: &Lanes) requires src@.len() == old(self)@.len() ensures final(self)@ == src@ { unimplemented!() }
    #[verifier::external_body]
    pub fn to_owned(&self) -> (r: Lanes) ensures r@ == self@ { unimplemented!() }
}
