// ---- specs/interp1d.rs : shim of Interp1D and of the strategy trait (assumed shapes; field list
// is compared with the real struct on every run), plus the vocabulary of the 1-D contracts
pub enum InterpolateError { OutOfBounds(String) }

pub struct Interp1D<S> { pub x: Arr1, pub data: ArrD, pub strategy: S }
impl<S> Interp1D<S> {
    pub open spec fn lanes(&self) -> int { self.data.rows@[0].len() as int }
    /// the struct invariant documented on the real type ("x values are guaranteed to be strict
    /// monotonically rising", `data.shape()[0] == x.len()`), established by `build()` (C10)
    pub open spec fn wf(&self) -> bool {
        &&& axis_ok(self.x@)
        &&& self.data.rows@.len() == self.x@.len()
        &&& forall|i: int| 0 <= i < self.data.rows@.len() ==> (#[trigger] self.data.rows@[i]).len() == self.data.rows@[0].len()
    }
}
pub open spec fn in_closed_range(s: Seq<T>, q: T) -> bool { t_le(s[0], q) && t_le(q, s[s.len() - 1]) }

pub trait Interp1DStrategy: Sized {
    spec fn strat_wf(&self, i: &Interp1D<Self>) -> bool;
    /// queries the strategy is defined on (everything except NaN-with-extrapolation, which panics)
    spec fn query_ok(&self, x: T) -> bool;
    /// whatever the strategy promises about one call (opaque to Interp1D): used to state that the entry points
    /// hand the query, the target and the result through unchanged (C18)
    spec fn interp_post(&self, i: &Interp1D<Self>, target_before: Seq<T>, x: T, r: Result<(), InterpolateError>, target_after: Seq<T>) -> bool;
    fn interp_into(&self, interpolator: &Interp1D<Self>, target: &mut Lanes, x: T) -> (r: Result<(), InterpolateError>)
        requires interpolator.wf(), self.strat_wf(interpolator), self.query_ok(x)
        ensures self.interp_post(interpolator, old(target)@, x, r, final(target)@);
}

/// lane j of the target holds the Linear interpolant of rows i, i+1 at x (value-level, see lin_ok)
pub open spec fn linear_ok<S>(r: T, it: &Interp1D<S>, i: int, x: T, j: int) -> bool {
    lin_ok(r, it.x@[i], it.data.rows@[i][j], it.x@[i + 1], it.data.rows@[i + 1][j], x)
}
