// ---- specs/thomas_deps.rs : explicit data flow through CubicSpline::thomas (C08, bit level: NaN / inf included)
pub struct ThomasShim { }
/// union of the dependency sets of the first n entries of a vector
pub open spec fn vec_deps(s: Seq<T>, n: int) -> Set<Cell> decreases n {
    if n <= 0 { Set::empty() } else { vec_deps(s, n - 1).union(s[n - 1].deps@) }
}
/// union of the dependency sets of lane j of the first n rows
pub open spec fn col_deps(rows: Seq<Seq<T>>, j: int, n: int) -> Set<Cell> decreases n {
    if n <= 0 { Set::empty() } else { col_deps(rows, j, n - 1).union(rows[n - 1][j].deps@) }
}
pub proof fn lemma_vec_deps_member(s: Seq<T>, n: int, t: int)
    requires 0 <= t < n
    ensures s[t].deps@.subset_of(vec_deps(s, n))
    decreases n
{
    if t < n - 1 { lemma_vec_deps_member(s, n - 1, t); }
}
pub proof fn lemma_col_deps_member(rows: Seq<Seq<T>>, j: int, n: int, t: int)
    requires 0 <= t < n
    ensures rows[t][j].deps@.subset_of(col_deps(rows, j, n))
    decreases n
{
    if t < n - 1 { lemma_col_deps_member(rows, j, n - 1, t); }
}
/// everything the matrix depends on
pub open spec fn mat_deps(up: Seq<T>, mid: Seq<T>, low: Seq<T>, n: int) -> Set<Cell> {
    vec_deps(up, n).union(vec_deps(mid, n)).union(vec_deps(low, n))
}
/// what lane j of the solution may depend on: the matrix and lane j of the right-hand side — no other lane
pub open spec fn lane_deps(up: Seq<T>, mid: Seq<T>, low: Seq<T>, rhs: Seq<Seq<T>>, j: int, n: int) -> Set<Cell> {
    mat_deps(up, mid, low, n).union(col_deps(rhs, j, n))
}
pub proof fn lemma_vec_deps_bound(s: Seq<T>, n: int, bound: Set<Cell>)
    requires 0 <= n <= s.len(), forall|t: int| 0 <= t < n ==> (#[trigger] s[t]).deps@.subset_of(bound)
    ensures vec_deps(s, n).subset_of(bound)
    decreases n
{
    if n > 0 { lemma_vec_deps_bound(s, n - 1, bound); assert(s[n - 1].deps@.subset_of(bound)); }
}
pub proof fn lemma_col_deps_bound(rows: Seq<Seq<T>>, j: int, n: int, bound: Set<Cell>)
    requires 0 <= n <= rows.len(), forall|t: int| 0 <= t < n ==> (#[trigger] rows[t])[j].deps@.subset_of(bound)
    ensures col_deps(rows, j, n).subset_of(bound)
    decreases n
{
    if n > 0 { lemma_col_deps_bound(rows, j, n - 1, bound); assert(rows[n - 1][j].deps@.subset_of(bound)); }
}
