// ---- specs/periodic_thm.rs : C02 / C03 / C07 for the PERIODIC spline, every n >= 4, over the contract of solve_for_k[periodic] (no hypothesis beyond a strictly increasing finite axis and closing data):
//      the slopes kper satisfy every row of the cyclic system; hence S'' is continuous at every interior knot and across the
//      wrap (S''(x_0+) = S''(x_{n-1}-)), and S'(x_0) = S'(x_{n-1}) by construction
pub open spec fn per_ok(x: Seq<T>, y: Seq<Seq<T>>, n: int, nl: int, j: int) -> bool {
    n >= 4 && x.len() == n && axis_incr(x) && 0 <= j < nl && y[0][j]@ == y[n - 1][j]@
}
/// row of the cyclic system at knot i (1 <= i <= n-2), as the residual of the interior row
pub proof fn lemma_per_cyclic_row(x: Seq<T>, y: Seq<Seq<T>>, n: int, nl: int, j: int, i: int)
    requires per_ok(x, y, n, nl, j), 1 <= i <= n - 2
    ensures res_interior(x[i - 1]@, x[i]@, x[i + 1]@, y[i - 1][j]@, y[i][j]@, y[i + 1][j]@,
                         kper(x, y, n, nl, j, i - 1), kper(x, y, n, nl, j, i), kper(x, y, n, nl, j, i + 1)) == 0real
{
    let up = per_up(x, n); let mid = per_mid(x, n); let low = per_low(x, n); let r1 = per_rhs1(x, y, n, nl); let r2 = per_rhs2(x, n, nl);
    let m = n - 2;
    let km = per_km(x, y, n, nl, j);
    thm_per_pivots_nonzero(x, n);
    thm_per_den_positive(x, n, nl, j);
    assert(hx(x, i) > 0real && hx(x, i - 1) > 0real);
    if i <= n - 3 {
        thm_thomas_solves(up, mid, low, r1, j, m, i);
        thm_thomas_solves(up, mid, low, r2, j, m, i);
        let a0 = per_k1(x, y, n, nl, j, i - 1); let a1 = per_k1(x, y, n, nl, j, i); let a2 = per_k1(x, y, n, nl, j, i + 1);
        let b0 = per_k2(x, n, nl, j, i - 1); let b1 = per_k2(x, n, nl, j, i); let b2 = per_k2(x, n, nl, j, i + 1);
        assert(up[i] == hx(x, i - 1) && mid[i] == 2real * (hx(x, i) + hx(x, i - 1)) && low[i] == hx(x, i));
        assert(r1[i][j] == rhs_int(x, y, i, j));
        if i <= n - 4 {
            assert(r2[i][j] == 0real);
            L_per_row_mid(low[i], mid[i], up[i], km, a0, a1, a2, b0, b1, b2, r1[i][j]);
        } else {
            assert(r2[i][j] == -hx(x, n - 4));
            L_per_row_last(low[i], mid[i], hx(x, n - 4), km, a0, a1, b0, b1, r1[i][j]);
        }
    } else {
        // closing row: the definition of the eliminated slope
        assert(hx(x, n - 2) > 0real && hx(x, n - 3) > 0real);
        let hp = hx(x, n - 3); let hq = hx(x, n - 2);
        let a0 = per_k1(x, y, n, nl, j, 0); let a3 = per_k1(x, y, n, nl, j, n - 3);
        let b0 = per_k2(x, n, nl, j, 0); let b3 = per_k2(x, n, nl, j, n - 3);
        let rr = per_rhs_entry(x, y, n, n - 2, j);
        assert(per_den(x, n, nl, j) == b0 * hp + b3 * hq + 2real * (hq + hp));
        L_per_row_close(hp, hq, a0, a3, b0, b3, rr);
        L_per_rhs_wrap(hp, hq, y[n - 3][j]@, y[n - 2][j]@, y[n - 2][j]@, y[n - 1][j]@);
        assert(km == (rr - a0 * hp - a3 * hq) / (b0 * hp + b3 * hq + 2real * (hq + hp)));
    }
}
/// row of the cyclic system at the wrapped knot x_0 == x_{n-1}: left neighbour is knot n-2, one period to the left
pub proof fn lemma_per_wrap_row(x: Seq<T>, y: Seq<Seq<T>>, n: int, nl: int, j: int)
    requires per_ok(x, y, n, nl, j)
    ensures res_interior(x[0]@ - hx(x, n - 2), x[0]@, x[1]@, y[n - 2][j]@, y[0][j]@, y[1][j]@,
                         kper(x, y, n, nl, j, n - 2), kper(x, y, n, nl, j, 0), kper(x, y, n, nl, j, 1)) == 0real
{
    let up = per_up(x, n); let mid = per_mid(x, n); let low = per_low(x, n); let r1 = per_rhs1(x, y, n, nl); let r2 = per_rhs2(x, n, nl);
    let m = n - 2;
    let km = per_km(x, y, n, nl, j);
    thm_per_pivots_nonzero(x, n);
    thm_per_den_positive(x, n, nl, j);
    assert(hx(x, 0) > 0real && hx(x, n - 2) > 0real);
    thm_thomas_solves(up, mid, low, r1, j, m, 0);
    thm_thomas_solves(up, mid, low, r2, j, m, 0);
    assert(up[0] == hx(x, n - 2) && mid[0] == 2real * (hx(x, n - 2) + hx(x, 0)));
    assert(r1[0][j] == per_rhs_entry(x, y, n, 0, j));
    assert(r2[0][j] == -hx(x, 0));
    L_per_row_first(mid[0], up[0], hx(x, 0), km, per_k1(x, y, n, nl, j, 0), per_k1(x, y, n, nl, j, 1), per_k2(x, n, nl, j, 0), per_k2(x, n, nl, j, 1), r1[0][j]);
    L_per_rhs_wrap(hx(x, n - 2), hx(x, 0), y[n - 2][j]@, y[n - 1][j]@, y[0][j]@, y[1][j]@);
}
/// C02 for the periodic spline: S'' continuous at every interior knot
pub proof fn thm_periodic_C2_every_knot(x: Seq<T>, y: Seq<Seq<T>>, n: int, nl: int, j: int, i: int)
    requires per_ok(x, y, n, nl, j), 1 <= i <= n - 2
    ensures dd_at_left_end(x[i]@, x[i + 1]@, y[i][j]@, y[i + 1][j]@, kper(x, y, n, nl, j, i), kper(x, y, n, nl, j, i + 1))
              == dd_at_right_end(x[i - 1]@, x[i]@, y[i - 1][j]@, y[i][j]@, kper(x, y, n, nl, j, i - 1), kper(x, y, n, nl, j, i))
{
    lemma_per_cyclic_row(x, y, n, nl, j, i);
    assert(hx(x, i) > 0real && hx(x, i - 1) > 0real);
    thm_rows_are_the_conditions(x[i - 1]@, x[i]@, x[i + 1]@, y[i - 1][j]@, y[i][j]@, y[i + 1][j]@,
                                kper(x, y, n, nl, j, i - 1), kper(x, y, n, nl, j, i), kper(x, y, n, nl, j, i + 1), 0real);
}
/// C03 for the periodic spline: first and second derivative agree at the two ends of the period
pub proof fn thm_periodic_ends(x: Seq<T>, y: Seq<Seq<T>>, n: int, nl: int, j: int)
    requires per_ok(x, y, n, nl, j)
    ensures
        kper(x, y, n, nl, j, n - 1) == kper(x, y, n, nl, j, 0),
        dd_at_left_end(x[0]@, x[1]@, y[0][j]@, y[1][j]@, kper(x, y, n, nl, j, 0), kper(x, y, n, nl, j, 1))
          == dd_at_right_end(x[n - 2]@, x[n - 1]@, y[n - 2][j]@, y[n - 1][j]@, kper(x, y, n, nl, j, n - 2), kper(x, y, n, nl, j, n - 1)),
{
    lemma_per_wrap_row(x, y, n, nl, j);
    assert(hx(x, 0) > 0real && hx(x, n - 2) > 0real);
    let xm = x[0]@ - hx(x, n - 2);
    thm_rows_are_the_conditions(xm, x[0]@, x[1]@, y[n - 2][j]@, y[0][j]@, y[1][j]@, kper(x, y, n, nl, j, n - 2), kper(x, y, n, nl, j, 0), kper(x, y, n, nl, j, 1), 0real);
    // the right-end second derivative depends on the interval through its width only
    assert(x[0]@ - xm == x[n - 1]@ - x[n - 2]@);
}
