// ---- specs/calc_deps.rs : explicit data flow through CubicSpline::calc_coefficients (whole-set end conditions)
pub struct IndivArr { pub g: Ghost<int> }
pub enum BoundaryCondition { NotAKnot, Natural, Clamped, Periodic, Individual(IndivArr) }
pub struct CubicSpline { pub extrapolate: bool, pub boundary: BoundaryCondition }
/// what lane j of the coefficients may depend on: the axis and lane j of the data — no other lane
pub open spec fn coef_deps(x: Seq<T>, y: Seq<Seq<T>>, j: int) -> Set<Cell> {
    vec_deps(x, x.len() as int).union(col_deps(y, j, y.len() as int))
}
