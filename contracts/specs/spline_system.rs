// ---- specs/spline_system.rs : C02 (C2 continuity) and C03 (end conditions) for EVERY n, over the contracts of
//      solve_for_k (the system it builds), thomas (what it returns solves every row) and the coefficient loop (a, b from k)
/// slope at knot i, lane j, as returned by solve_for_k (by its contract)
pub open spec fn ksys(x: Seq<T>, y: Seq<Seq<T>>, bl: SingleBoundary<T>, br: SingleBoundary<T>, n: int, nl: int, j: int, i: int) -> real {
    ksol(sys_up(x, bl, n), sys_mid(x, bl, br, n), sys_low(x, br, n), sys_rhs(x, y, bl, br, n, nl), j, n, i)
}
/// row i of the system holds for the returned slopes
pub proof fn lemma_sys_row(x: Seq<T>, y: Seq<Seq<T>>, bl: SingleBoundary<T>, br: SingleBoundary<T>, n: int, nl: int, j: int, i: int)
    requires n >= 3, 0 <= i < n, 0 <= j < nl, pivots_ok(sys_up(x, bl, n), sys_mid(x, bl, br, n), sys_low(x, br, n), n)
    ensures
        (if i > 0 { low_entry(x, br, n, i) * ksys(x, y, bl, br, n, nl, j, i - 1) } else { 0real })
          + mid_entry(x, bl, br, n, i) * ksys(x, y, bl, br, n, nl, j, i)
          + (if i < n - 1 { up_entry(x, bl, n, i) * ksys(x, y, bl, br, n, nl, j, i + 1) } else { 0real })
          == rhs_entry(x, y, bl, br, n, i, j)
{
    thm_thomas_solves(sys_up(x, bl, n), sys_mid(x, bl, br, n), sys_low(x, br, n), sys_rhs(x, y, bl, br, n, nl), j, n, i);
    assert(sys_rhs(x, y, bl, br, n, nl)[i][j] == rhs_entry(x, y, bl, br, n, i, j));
}

/// C02, unbounded: the second derivative is continuous at EVERY interior knot (any n >= 3, any lane, any sided end conditions)
pub proof fn thm_C02_C2_every_knot(x: Seq<T>, y: Seq<Seq<T>>, bl: SingleBoundary<T>, br: SingleBoundary<T>, n: int, nl: int, j: int, i: int)
    requires n >= 3, x.len() == n, axis_incr(x), 1 <= i < n - 1, 0 <= j < nl,
             !(n == 3 && eff_tag(bl) == 0 && eff_tag(br) == 0)
    ensures
        dd_at_left_end(x[i]@, x[i + 1]@, y[i][j]@, y[i + 1][j]@, ksys(x, y, bl, br, n, nl, j, i), ksys(x, y, bl, br, n, nl, j, i + 1))
          == dd_at_right_end(x[i - 1]@, x[i]@, y[i - 1][j]@, y[i][j]@, ksys(x, y, bl, br, n, nl, j, i - 1), ksys(x, y, bl, br, n, nl, j, i))
{
    thm_pivots_nonzero(x, bl, br, n);
    lemma_sys_row(x, y, bl, br, n, nl, j, i);
    assert(hx(x, i - 1) > 0real && hx(x, i) > 0real);
    let k0 = ksys(x, y, bl, br, n, nl, j, i - 1); let k1 = ksys(x, y, bl, br, n, nl, j, i); let k2 = ksys(x, y, bl, br, n, nl, j, i + 1);
    assert(res_interior(x[i - 1]@, x[i]@, x[i + 1]@, y[i - 1][j]@, y[i][j]@, y[i + 1][j]@, k0, k1, k2) == 0real);
    thm_rows_are_the_conditions(x[i - 1]@, x[i]@, x[i + 1]@, y[i - 1][j]@, y[i][j]@, y[i + 1][j]@, k0, k1, k2, 0real);
}

/// C03, unbounded, left end: prescribed second derivative / prescribed slope / continuous third derivative across the first interior knot
pub proof fn thm_C03_left_end(x: Seq<T>, y: Seq<Seq<T>>, bl: SingleBoundary<T>, br: SingleBoundary<T>, n: int, nl: int, j: int)
    requires n >= 3, x.len() == n, axis_incr(x), 0 <= j < nl,
             !(n == 3 && eff_tag(bl) == 0 && eff_tag(br) == 0)
    ensures
        eff_tag(bl) == 2 ==> dd_at_left_end(x[0]@, x[1]@, y[0][j]@, y[1][j]@, ksys(x, y, bl, br, n, nl, j, 0), ksys(x, y, bl, br, n, nl, j, 1)) == eff_val(bl),
        eff_tag(bl) == 1 ==> herm_c1(x[0]@, x[1]@, y[0][j]@, y[1][j]@, aK(x[0]@, x[1]@, y[0][j]@, y[1][j]@, ksys(x, y, bl, br, n, nl, j, 0)), bK(x[0]@, x[1]@, y[0][j]@, y[1][j]@, ksys(x, y, bl, br, n, nl, j, 1))) == eff_val(bl),
        eff_tag(bl) == 0 ==> ddd(x[1]@, x[2]@, y[1][j]@, y[2][j]@, ksys(x, y, bl, br, n, nl, j, 1), ksys(x, y, bl, br, n, nl, j, 2))
                              == ddd(x[0]@, x[1]@, y[0][j]@, y[1][j]@, ksys(x, y, bl, br, n, nl, j, 0), ksys(x, y, bl, br, n, nl, j, 1)),
{
    thm_pivots_nonzero(x, bl, br, n);
    lemma_sys_row(x, y, bl, br, n, nl, j, 0);
    lemma_sys_row(x, y, bl, br, n, nl, j, 1);
    assert(hx(x, 0) > 0real && hx(x, 1) > 0real);
    let k0 = ksys(x, y, bl, br, n, nl, j, 0); let k1 = ksys(x, y, bl, br, n, nl, j, 1); let k2 = ksys(x, y, bl, br, n, nl, j, 2);
    let x0 = x[0]@; let x1 = x[1]@; let x2 = x[2]@; let y0 = y[0][j]@; let y1 = y[1][j]@; let y2 = y[2][j]@;
    let v = eff_val(bl);
    thm_rows_are_the_conditions(x0, x1, x2, y0, y1, y2, k0, k1, k2, v);
    if eff_tag(bl) == 2 {
        let h = x1 - x0;
        assert(v * (h * h) / 2real == v * h * h / 2real) by(nonlinear_arith);
        assert((3real * (y1 - y0) - v * (x1 - x0) * (x1 - x0) / 2real) - (2real * (x1 - x0) * k0 + (x1 - x0) * k1) == 0real);
    }
    if eff_tag(bl) == 1 {
        assert(k0 == v) by(nonlinear_arith) requires 1real * k0 + 0real * k1 == v;
        L_herm_left_slope(x0, x1, y0, y1, k0, k1);
    }
    if eff_tag(bl) == 0 {
        assert(res_interior(x0, x1, x2, y0, y1, y2, k0, k1, k2) == 0real);
        assert(res_nak_left(x0, x1, x2, y0, y1, y2, k0, k1) == 0real);
    }
}

/// C03, unbounded, right end
pub proof fn thm_C03_right_end(x: Seq<T>, y: Seq<Seq<T>>, bl: SingleBoundary<T>, br: SingleBoundary<T>, n: int, nl: int, j: int)
    requires n >= 3, x.len() == n, axis_incr(x), 0 <= j < nl,
             !(n == 3 && eff_tag(bl) == 0 && eff_tag(br) == 0)
    ensures
        eff_tag(br) == 2 ==> dd_at_right_end(x[n - 2]@, x[n - 1]@, y[n - 2][j]@, y[n - 1][j]@, ksys(x, y, bl, br, n, nl, j, n - 2), ksys(x, y, bl, br, n, nl, j, n - 1)) == eff_val(br),
        eff_tag(br) == 1 ==> ({
            let xl = x[n - 2]@; let xr = x[n - 1]@; let yl = y[n - 2][j]@; let yr = y[n - 1][j]@;
            let a = aK(xl, xr, yl, yr, ksys(x, y, bl, br, n, nl, j, n - 2)); let b = bK(xl, xr, yl, yr, ksys(x, y, bl, br, n, nl, j, n - 1));
            herm_c1(xl, xr, yl, yr, a, b) + 2real * herm_c2(xl, xr, yl, yr, a, b) * (xr - xl) + 3real * herm_c3(xl, xr, yl, yr, a, b) * (xr - xl) * (xr - xl) == eff_val(br) }),
        eff_tag(br) == 0 ==> ddd(x[n - 2]@, x[n - 1]@, y[n - 2][j]@, y[n - 1][j]@, ksys(x, y, bl, br, n, nl, j, n - 2), ksys(x, y, bl, br, n, nl, j, n - 1))
                              == ddd(x[n - 3]@, x[n - 2]@, y[n - 3][j]@, y[n - 2][j]@, ksys(x, y, bl, br, n, nl, j, n - 3), ksys(x, y, bl, br, n, nl, j, n - 2)),
{
    thm_pivots_nonzero(x, bl, br, n);
    lemma_sys_row(x, y, bl, br, n, nl, j, n - 1);
    lemma_sys_row(x, y, bl, br, n, nl, j, n - 2);
    assert(hx(x, n - 3) > 0real && hx(x, n - 2) > 0real);
    let k0 = ksys(x, y, bl, br, n, nl, j, n - 3); let k1 = ksys(x, y, bl, br, n, nl, j, n - 2); let k2 = ksys(x, y, bl, br, n, nl, j, n - 1);
    let x0 = x[n - 3]@; let x1 = x[n - 2]@; let x2 = x[n - 1]@; let y0 = y[n - 3][j]@; let y1 = y[n - 2][j]@; let y2 = y[n - 1][j]@;
    let v = eff_val(br);
    thm_rows_are_the_conditions(x0, x1, x2, y0, y1, y2, k0, k1, k2, v);
    thm_rows_are_the_conditions(x1, x2, x2 + 1real, y1, y2, y2, k1, k2, k2, v);
    if eff_tag(br) == 2 {
        let h = x2 - x1;
        assert(v * (h * h) / 2real == v * h * h / 2real) by(nonlinear_arith);
        assert((3real * (y2 - y1) + v * (x2 - x1) * (x2 - x1) / 2real) - (2real * (x2 - x1) * k2 + (x2 - x1) * k1) == 0real);
    }
    if eff_tag(br) == 1 {
        assert(k2 == v) by(nonlinear_arith) requires 0real * k1 + 1real * k2 == v;
        L_herm_right_slope(x1, x2, y1, y2, k1, k2);
    }
    if eff_tag(br) == 0 {
        assert(res_interior(x0, x1, x2, y0, y1, y2, k0, k1, k2) == 0real);
        assert(res_nak_right(x0, x1, x2, y0, y1, y2, k1, k2) == 0real);
    }
}

// ---- no zero pivot: the hypothesis `pivots_ok` of the two contracts HOLDS for every sided end-condition pair on a strictly
//      increasing axis (except the 3-point not-a-knot/not-a-knot system, which is singular and has its own arm in the code)
pub open spec fn pv(x: Seq<T>, bl: SingleBoundary<T>, br: SingleBoundary<T>, n: int, i: int) -> real {
    piv(sys_up(x, bl, n), sys_mid(x, bl, br, n), sys_low(x, br, n), i)
}
/// bound carried along the elimination for the rows 0..n-2
pub open spec fn piv_bound(x: Seq<T>, bl: SingleBoundary<T>, br: SingleBoundary<T>, n: int, i: int) -> bool {
    let p = pv(x, bl, br, n, i);
    if i == 0 { p > 0real && (eff_tag(bl) != 0 ==> p > up_entry(x, bl, n, 0)) }
    else if i == 1 && eff_tag(bl) == 0 { p == hx(x, 0) + hx(x, 1) }
    else { p > hx(x, i) + 2real * hx(x, i - 1) }
}
pub proof fn lemma_piv_bound(x: Seq<T>, bl: SingleBoundary<T>, br: SingleBoundary<T>, n: int, i: int)
    requires n >= 3, x.len() == n, axis_incr(x), 0 <= i <= n - 2
    ensures piv_bound(x, bl, br, n, i), pv(x, bl, br, n, i) > 0real, i >= 1 ==> pv(x, bl, br, n, i) > up_entry(x, bl, n, i), up_entry(x, bl, n, i) >= 0real
    decreases i
{
    assert(hx(x, 0) > 0real && hx(x, 1) > 0real);
    if i == 0 {
    } else {
        lemma_piv_bound(x, bl, br, n, i - 1);
        assert(hx(x, i) > 0real && hx(x, i - 1) > 0real);
        let pp = pv(x, bl, br, n, i - 1);
        let u = up_entry(x, bl, n, i - 1);
        let low = low_entry(x, br, n, i);
        let mid = mid_entry(x, bl, br, n, i);
        assert(pv(x, bl, br, n, i) == mid - (low / pp) * u);
        if i == 1 && eff_tag(bl) == 0 {
            L_piv_nak_left_second(hx(x, 0), hx(x, 1));
        } else {
            L_piv_step_lower(low, mid, pp, u);
        }
    }
}
/// every pivot of the system that solve_for_k builds is non-zero
pub proof fn thm_pivots_nonzero(x: Seq<T>, bl: SingleBoundary<T>, br: SingleBoundary<T>, n: int)
    requires n >= 3, x.len() == n, axis_incr(x), !(n == 3 && eff_tag(bl) == 0 && eff_tag(br) == 0)
    ensures pivots_ok(sys_up(x, bl, n), sys_mid(x, bl, br, n), sys_low(x, br, n), n)
{
    assert forall|i: int| 0 <= i < n implies #[trigger] piv(sys_up(x, bl, n), sys_mid(x, bl, br, n), sys_low(x, br, n), i) != 0real by {
        if i <= n - 2 {
            lemma_piv_bound(x, bl, br, n, i);
        } else {
            lemma_piv_bound(x, bl, br, n, n - 2);
            assert(hx(x, n - 2) > 0real && hx(x, n - 3) > 0real);
            let pp = pv(x, bl, br, n, n - 2);
            let u = up_entry(x, bl, n, n - 2);
            let low = low_entry(x, br, n, n - 1);
            let mid = mid_entry(x, bl, br, n, n - 1);
            assert(pv(x, bl, br, n, n - 1) == mid - (low / pp) * u);
            if eff_tag(br) == 1 {
                L_piv_step_zero_low(mid, pp, u);
            } else if eff_tag(br) == 2 {
                L_piv_step_lower(low, mid, pp, u);
            } else {
                L_piv_nak_right_last(hx(x, n - 3), hx(x, n - 2), pp);
            }
        }
    }
}

// ---- C08 for the construction: the slopes of lane j are a function of the axis, the end conditions and lane j of the data ONLY
pub proof fn lemma_fwd_lane(up: Seq<real>, mid: Seq<real>, low: Seq<real>, r1: Seq<Seq<real>>, r2: Seq<Seq<real>>, j: int, i: int)
    requires 0 <= i, forall|t: int| 0 <= t <= i ==> (#[trigger] r1[t])[j] == r2[t][j]
    ensures fwd(up, mid, low, r1, j, i) == fwd(up, mid, low, r2, j, i)
    decreases i
{
    assert(r1[i][j] == r2[i][j]);
    assert(r1[0][j] == r2[0][j]);
    if i > 0 { lemma_fwd_lane(up, mid, low, r1, r2, j, i - 1); }
}
pub proof fn lemma_ksol_lane(up: Seq<real>, mid: Seq<real>, low: Seq<real>, r1: Seq<Seq<real>>, r2: Seq<Seq<real>>, j: int, n: int, i: int)
    requires 0 <= i < n, forall|t: int| 0 <= t < n ==> (#[trigger] r1[t])[j] == r2[t][j]
    ensures ksol(up, mid, low, r1, j, n, i) == ksol(up, mid, low, r2, j, n, i)
    decreases n - i
{
    lemma_fwd_lane(up, mid, low, r1, r2, j, i);
    lemma_fwd_lane(up, mid, low, r1, r2, j, n - 1);
    if i < n - 1 { lemma_ksol_lane(up, mid, low, r1, r2, j, n, i + 1); }
}
/// two data arrays that agree on lane j (other lanes arbitrary) give the same slopes for lane j
pub proof fn thm_C08_slopes_use_own_lane_only(x: Seq<T>, y1: Seq<Seq<T>>, y2: Seq<Seq<T>>, bl: SingleBoundary<T>, br: SingleBoundary<T>, n: int, nl: int, j: int, i: int)
    requires n >= 3, 0 <= i < n, 0 <= j < nl, y1.len() == n, y2.len() == n,
             forall|t: int| 0 <= t < n ==> (#[trigger] y1[t])[j]@ == y2[t][j]@
    ensures ksys(x, y1, bl, br, n, nl, j, i) == ksys(x, y2, bl, br, n, nl, j, i)
{
    let r1 = sys_rhs(x, y1, bl, br, n, nl); let r2 = sys_rhs(x, y2, bl, br, n, nl);
    assert forall|t: int| 0 <= t < n implies (#[trigger] r1[t])[j] == r2[t][j] by {
        assert(y1[0][j]@ == y2[0][j]@ && y1[1][j]@ == y2[1][j]@ && y1[2][j]@ == y2[2][j]@);
        assert(y1[n - 1][j]@ == y2[n - 1][j]@ && y1[n - 2][j]@ == y2[n - 2][j]@ && y1[n - 3][j]@ == y2[n - 3][j]@);
        assert(y1[t][j]@ == y2[t][j]@);
        if 0 < t { assert(y1[t - 1][j]@ == y2[t - 1][j]@); }
        if t < n - 1 { assert(y1[t + 1][j]@ == y2[t + 1][j]@); }
        assert(r1[t][j] == rhs_entry(x, y1, bl, br, n, t, j));
        assert(r2[t][j] == rhs_entry(x, y2, bl, br, n, t, j));
    }
    lemma_ksol_lane(sys_up(x, bl, n), sys_mid(x, bl, br, n), sys_low(x, br, n), r1, r2, j, n, i);
}
