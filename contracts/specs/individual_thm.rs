// ---- specs/individual_thm.rs : C02 / C03 for ONE LANE under its OWN condition (BoundaryCondition::Individual):
// the value-level theorems over the contracts, instantiated for the slopes that `lane_ok` (the postcondition of the per-lane dispatch
// solve_for_k_individual and of calc_coefficients[individual]) pins down. No /repo code involved.

/// C02: S'' is continuous at every interior knot of the lane
pub proof fn thm_individual_lane_C2(kc: Seq<T>, x: Seq<T>, yc: Seq<T>, rb: RowBoundary<T>, i: int)
    requires yc.len() >= 3, x.len() == yc.len(), kc.len() == yc.len(), 1 <= i < yc.len() - 1,
             lane_ok(kc, x, yc, rb), solve_covered(ib_of_row(rb), yc.len() as int), solve_inputs_ok(x, as1(yc), ib_of_row(rb))
    ensures dd_at_left_end(x[i]@, x[i + 1]@, yc[i]@, yc[i + 1]@, kc[i]@, kc[i + 1]@) == dd_at_right_end(x[i - 1]@, x[i]@, yc[i - 1]@, yc[i]@, kc[i - 1]@, kc[i]@)
{
    let b = ib_of_row(rb); let n = yc.len() as int; let y = as1(yc);
    thm_C02_C2_every_knot(x, y, ib_left(b), ib_right(b), n, 1, 0, i);
    assert(kc[i - 1]@ == ksys(x, y, ib_left(b), ib_right(b), n, 1, 0, i - 1));
    assert(kc[i]@ == ksys(x, y, ib_left(b), ib_right(b), n, 1, 0, i));
    assert(kc[i + 1]@ == ksys(x, y, ib_left(b), ib_right(b), n, 1, 0, i + 1));
    assert(y[i][0] == yc[i] && y[i + 1][0] == yc[i + 1] && y[i - 1][0] == yc[i - 1]);
}

/// C03: at each end the lane's spline satisfies the condition selected FOR THAT LANE (Natural = S''=0, Clamped = S'=0, FirstDeriv / SecondDeriv values,
/// NotAKnot = S''' continuous across the first / last interior knot)
pub proof fn thm_individual_lane_ends(kc: Seq<T>, x: Seq<T>, yc: Seq<T>, rb: RowBoundary<T>)
    requires yc.len() >= 3, x.len() == yc.len(), kc.len() == yc.len(),
             lane_ok(kc, x, yc, rb), solve_covered(ib_of_row(rb), yc.len() as int), solve_inputs_ok(x, as1(yc), ib_of_row(rb))
    ensures ({
        let b = ib_of_row(rb); let bl = ib_left(b); let br = ib_right(b); let n = yc.len() as int;
        &&& eff_tag(bl) == 2 ==> dd_at_left_end(x[0]@, x[1]@, yc[0]@, yc[1]@, kc[0]@, kc[1]@) == eff_val(bl)
        &&& eff_tag(bl) == 1 ==> herm_c1(x[0]@, x[1]@, yc[0]@, yc[1]@, aK(x[0]@, x[1]@, yc[0]@, yc[1]@, kc[0]@), bK(x[0]@, x[1]@, yc[0]@, yc[1]@, kc[1]@)) == eff_val(bl)
        &&& eff_tag(bl) == 0 ==> ddd(x[1]@, x[2]@, yc[1]@, yc[2]@, kc[1]@, kc[2]@) == ddd(x[0]@, x[1]@, yc[0]@, yc[1]@, kc[0]@, kc[1]@)
        &&& eff_tag(br) == 2 ==> dd_at_right_end(x[n - 2]@, x[n - 1]@, yc[n - 2]@, yc[n - 1]@, kc[n - 2]@, kc[n - 1]@) == eff_val(br)
        &&& eff_tag(br) == 0 ==> ddd(x[n - 2]@, x[n - 1]@, yc[n - 2]@, yc[n - 1]@, kc[n - 2]@, kc[n - 1]@) == ddd(x[n - 3]@, x[n - 2]@, yc[n - 3]@, yc[n - 2]@, kc[n - 3]@, kc[n - 2]@)
        &&& eff_tag(br) == 1 ==> ({
                let xl = x[n - 2]@; let xr = x[n - 1]@; let yl = yc[n - 2]@; let yr = yc[n - 1]@;
                let a = aK(xl, xr, yl, yr, kc[n - 2]@); let bb = bK(xl, xr, yl, yr, kc[n - 1]@);
                herm_c1(xl, xr, yl, yr, a, bb) + 2real * herm_c2(xl, xr, yl, yr, a, bb) * (xr - xl) + 3real * herm_c3(xl, xr, yl, yr, a, bb) * (xr - xl) * (xr - xl) == eff_val(br) })
    })
{
    let b = ib_of_row(rb); let n = yc.len() as int; let y = as1(yc);
    thm_C03_left_end(x, y, ib_left(b), ib_right(b), n, 1, 0);
    thm_C03_right_end(x, y, ib_left(b), ib_right(b), n, 1, 0);
    assert forall|t: int| 0 <= t < n implies kc[t]@ == ksys(x, y, ib_left(b), ib_right(b), n, 1, 0, t) && y[t][0] == yc[t] by {}
}

/// C03, three points with not-a-knot on both ends of the lane (spelled `NotAKnot` or `Mixed{NotAKnot, NotAKnot}`): one parabola
pub proof fn thm_individual_lane_parabola(kc: Seq<T>, x: Seq<T>, yc: Seq<T>, rb: RowBoundary<T>)
    requires yc.len() == 3, x.len() == 3, kc.len() == 3, lane_ok(kc, x, yc, rb), is_parabola_arm(ib_of_row(rb), 3), axis_incr(x), all_fin1(yc)
    ensures aK(x[0]@, x[1]@, yc[0]@, yc[1]@, kc[0]@) == bK(x[0]@, x[1]@, yc[0]@, yc[1]@, kc[1]@),
            aK(x[1]@, x[2]@, yc[1]@, yc[2]@, kc[1]@) == bK(x[1]@, x[2]@, yc[1]@, yc[2]@, kc[2]@),
            dd_at_left_end(x[1]@, x[2]@, yc[1]@, yc[2]@, kc[1]@, kc[2]@) == dd_at_right_end(x[0]@, x[1]@, yc[0]@, yc[1]@, kc[0]@, kc[1]@)
{
    let y = as1(yc);
    thm_parabola(x, y, 1, 0);
    assert(all_fin2(y)) by { assert forall|i: int, j: int| 0 <= i < y.len() && 0 <= j < y[i].len() implies is_fin(#[trigger] y[i][j]) by { assert(y[i][j] == yc[i]); } }
    assert forall|t: int| 0 <= t < 3 implies kc[t]@ == kpar(x, y, 1, 0, t) && y[t][0] == yc[t] by {}
}

/// C16 for one lane: data of the lane sampled from a cubic, the lane's own end conditions NotAKnot or FirstDeriv / SecondDeriv values taken from
/// that cubic (Natural / Clamped when the cubic has S''=0 / S'=0 there) => the piece built from the lane's slopes IS the cubic, at every query q
pub proof fn thm_individual_lane_reproduces_cubic(kc: Seq<T>, x: Seq<T>, yc: Seq<T>, rb: RowBoundary<T>, c0: real, c1: real, c2: real, c3: real, i: int, q: real)
    requires yc.len() >= 3, x.len() == yc.len(), kc.len() == yc.len(), 0 <= i < yc.len() - 1,
             lane_ok(kc, x, yc, rb), solve_covered(ib_of_row(rb), yc.len() as int), solve_inputs_ok(x, as1(yc), ib_of_row(rb)),
             forall|t: int| 0 <= t < yc.len() ==> (#[trigger] yc[t])@ == pc(c0, c1, c2, c3, x[t]@),
             end_matches(ib_left(ib_of_row(rb)), x[0]@, c1, c2, c3), end_matches(ib_right(ib_of_row(rb)), x[yc.len() - 1]@, c1, c2, c3)
    ensures herm(x[i]@, x[i + 1]@, yc[i]@, yc[i + 1]@, aK(x[i]@, x[i + 1]@, yc[i]@, yc[i + 1]@, kc[i]@), bK(x[i]@, x[i + 1]@, yc[i]@, yc[i + 1]@, kc[i + 1]@), q) == pc(c0, c1, c2, c3, q)
{
    let b = ib_of_row(rb); let n = yc.len() as int; let y = as1(yc);
    assert(samples_cubic(x, y, 0, c0, c1, c2, c3)) by {
        assert forall|t: int| 0 <= t < y.len() implies (#[trigger] y[t])[0]@ == pc(c0, c1, c2, c3, x[t]@) by { assert(y[t][0] == yc[t]); }
    }
    thm_C16_slopes_of_a_cubic(x, y, ib_left(b), ib_right(b), n, 1, 0, c0, c1, c2, c3, i);
    thm_C16_slopes_of_a_cubic(x, y, ib_left(b), ib_right(b), n, 1, 0, c0, c1, c2, c3, i + 1);
    assert(kc[i]@ == dpc(c1, c2, c3, x[i]@) && kc[i + 1]@ == dpc(c1, c2, c3, x[i + 1]@));
    assert(hx(x, i) > 0real);
    L_cubic_hermite_exact(x[i]@, x[i + 1]@, c0, c1, c2, c3, q);
}
