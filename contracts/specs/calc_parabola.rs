// ---- specs/calc_parabola.rs : CubicSpline::calc_coefficients for three points with the (default) NotAKnot condition
pub open spec fn coef_from_parabola(a: T, b: T, x: Seq<T>, y: Seq<Seq<T>>, nl: int, i: int, j: int) -> bool {
    &&& a@ == aK(x[i]@, x[i + 1]@, y[i][j]@, y[i + 1][j]@, kpar(x, y, nl, j, i))
    &&& b@ == bK(x[i]@, x[i + 1]@, y[i][j]@, y[i + 1][j]@, kpar(x, y, nl, j, i + 1))
}
/// C03 / C16 at the level of the stored coefficients: a == b on both pieces (no cubic term): one parabola
pub proof fn thm_parabola_coefficients(a0: T, b0: T, a1: T, b1: T, x: Seq<T>, y: Seq<Seq<T>>, nl: int, j: int)
    requires x.len() == 3, axis_incr(x), 0 <= j < nl, coef_from_parabola(a0, b0, x, y, nl, 0, j), coef_from_parabola(a1, b1, x, y, nl, 1, j)
    ensures a0@ == b0@, a1@ == b1@
{
    thm_parabola(x, y, nl, j);
}
