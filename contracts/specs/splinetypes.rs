// ---- specs/splinetypes.rs : shim types shared by the spline-construction programs
pub enum BuilderError { NotEnoughData(String), Monotonic(String), ShapeError(String), ValueError(String) }
/// stands for the array of per-lane boundary rows (never inspected by a contract)
pub struct IndivArr { pub g: Ghost<int> }
/// variant list is compared with the real `BoundaryCondition` on every run
pub enum BoundaryCondition { NotAKnot, Natural, Clamped, Periodic, Individual(IndivArr) }
pub struct CubicSpline { pub extrapolate: bool, pub boundary: BoundaryCondition }
