// ---- specs/shape.rs : shape predicates shared by the spline-construction programs
/// every row has l lanes
pub open spec fn rect(rows: Seq<Seq<T>>, l: int) -> bool { forall|i: int| 0 <= i < rows.len() ==> (#[trigger] rows[i]).len() == l }
