// ---- specs/builder.rs : shim of the builders and of the strategy-builder traits.
// The `requires` of the trait methods are the guarantees DOCUMENTED in strategies/mod.rs; the real
// `build` bodies are verified as CALLERS against them (C18), and their postconditions are the
// decision table of C10.
pub enum BuilderError { NotEnoughData(String), Monotonic(String), ShapeError(String), ValueError(String) }

pub struct Interp1DBuilder<Strat> { pub x: Arr1, pub data: ArrD, pub strategy: Strat }
pub struct Interp2DBuilder<Strat> { pub x: Arr1, pub y: Arr1, pub data: ArrD2, pub strategy: Strat }

/// "strictly monotonically rising" as the crate itself defines it (C12): at least two elements,
/// every consecutive pair strictly ordered, hence NaN-free
pub open spec fn rising_strict(s: Seq<T>) -> bool { s.len() >= 2 && nan_free(s) && all_lt(s) }

impl Arr1 {
    /// ASSUMED here, established by C12 (automaton proved; iterator pipeline bounded by Kani)
    #[verifier::external_body]
    pub fn monotonic_prop(&self) -> (r: Monotonic)
        ensures nan_free(self@) ==> r == classify(self@),
                !nan_free(self@) ==> !(r is Rising),
    { unimplemented!() }
}
impl ArrD {
    /// shape()[0] is the number of rows (type invariant of the logical view)
    pub open spec fn arr_wf(&self) -> bool { self.dims@.len() >= 1 ==> self.dims@[0] as int == self.rows@.len() }
}
impl ArrD2 {
    pub open spec fn arr_wf(&self) -> bool {
        &&& self.dims@.len() >= 1 ==> self.dims@[0] as int == self.cells@.len()
        &&& self.dims@.len() >= 2 ==> forall|i: int| 0 <= i < self.cells@.len() ==> (#[trigger] self.cells@[i]).len() == self.dims@[1] as int
    }
}

pub trait Interp1DStrategyBuilder: Sized {
    const MINIMUM_DATA_LENGHT: usize;
    type FinishedStrat: Interp1DStrategy;
    /// whatever the strategy promises about its own result (opaque to the builder)
    spec fn build_spec(self, x: &Arr1, data: &ArrD, r: Result<Self::FinishedStrat, BuilderError>) -> bool;
    fn build(self, x: &Arr1, data: &ArrD) -> (r: Result<Self::FinishedStrat, BuilderError>)
        requires
            rising_strict(x@),                                        // x is strictly monotonically rising
            data.dims@.len() >= 1, x@.len() == data.dims@[0] as int,   // the length of x equals the length of the data axis 0
            data.dims@[0] >= Self::MINIMUM_DATA_LENGHT,                // the length is at least MINIMUM_DATA_LENGHT
        ensures self.build_spec(x, data, r);
}
pub trait Interp2DStrategyBuilder: Sized {
    const MINIMUM_DATA_LENGHT: usize;
    type FinishedStrat: Interp2DStrategy;
    spec fn build_spec(self, x: &Arr1, y: &Arr1, data: &ArrD2, r: Result<Self::FinishedStrat, BuilderError>) -> bool;
    fn build(self, x: &Arr1, y: &Arr1, data: &ArrD2) -> (r: Result<Self::FinishedStrat, BuilderError>)
        requires
            rising_strict(x@), rising_strict(y@),
            data.dims@.len() >= 2, x@.len() == data.dims@[0] as int, y@.len() == data.dims@[1] as int,
            data.dims@[0] >= Self::MINIMUM_DATA_LENGHT, data.dims@[1] >= Self::MINIMUM_DATA_LENGHT,
        ensures self.build_spec(x, y, data, r);
}

/// C10 (1-D): the requirements checked by Interp1DBuilder::build itself
pub open spec fn valid1(x: Seq<T>, dims: Seq<usize>, min: usize) -> bool {
    dims.len() >= 1 && dims[0] >= min && rising_strict(x) && x.len() == dims[0] as int
}
/// the kind of a returned BuilderError matches one of the violated requirements
pub open spec fn kind_ok1(e: BuilderError, x: Seq<T>, dims: Seq<usize>, min: usize) -> bool {
    ||| (e is ShapeError && (dims.len() < 1 || x.len() != dims[0] as int))
    ||| (e is NotEnoughData && dims.len() >= 1 && dims[0] < min)
    ||| (e is Monotonic && !rising_strict(x))
}
pub open spec fn valid2(x: Seq<T>, y: Seq<T>, dims: Seq<usize>, min: usize) -> bool {
    dims.len() >= 2 && dims[0] >= min && dims[1] >= min && rising_strict(x) && rising_strict(y) && x.len() == dims[0] as int && y.len() == dims[1] as int
}
pub open spec fn kind_ok2(e: BuilderError, x: Seq<T>, y: Seq<T>, dims: Seq<usize>, min: usize) -> bool {
    ||| (e is ShapeError && (dims.len() < 2 || x.len() != dims[0] as int || y.len() != dims[1] as int))
    ||| (e is NotEnoughData && dims.len() >= 2 && (dims[0] < min || dims[1] < min))
    ||| (e is Monotonic && (!rising_strict(x) || !rising_strict(y)))
}
/// consecutive-pair order implies pairwise order (links C12's vocabulary to C11's)
pub proof fn lemma_adjacent_to_pairwise(s: Seq<T>, i: int, j: int)
    requires all_lt(s), 0 <= i < j < s.len()
    ensures t_lt(s[i], s[j])
    decreases j - i
{
    if j == i + 1 { assert(pair_lt(s, i)); } else { lemma_adjacent_to_pairwise(s, i, j - 1); assert(pair_lt(s, j - 1)); }
}
