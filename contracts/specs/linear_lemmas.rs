// ---- specs/linear_lemmas.rs : what the term `cf` means under A_exact (machine arithmetic treated as mathematical)
// `line` is defined once, in contracts/lemmas/linear.lem (imported above)
pub open spec fn rmin(a: real, b: real) -> real { if a <= b { a } else { b } }
pub open spec fn rmax(a: real, b: real) -> real { if a <= b { b } else { a } }

/// the value of the rounding-operator term is the straight line through the two points
pub proof fn lemma_cf_is_line(x1: T, y1: T, x2: T, y2: T, x: T)
    requires x1@ != x2@
    ensures cf(x1, y1, x2, y2, x)@ == line(x1@, y1@, x2@, y2@, x@)
{
    broadcast use A_exact;
}
/// finite inputs with distinct abscissae give a finite result (no NaN from 0/0)
pub proof fn lemma_cf_finite(x1: T, y1: T, x2: T, y2: T, x: T)
    requires is_fin(x1), is_fin(y1), is_fin(x2), is_fin(y2), is_fin(x), x1@ != x2@
    ensures is_fin(cf(x1, y1, x2, y2, x))
{
    broadcast use A_exact;
}
/// explicit data flow: the result depends on exactly its five operands
pub proof fn lemma_cf_deps(x1: T, y1: T, x2: T, y2: T, x: T)
    ensures cf(x1, y1, x2, y2, x).deps@ =~= y2.deps@.union(y1.deps@).union(x2.deps@.union(x1.deps@)).union(x.deps@.union(x1.deps@)).union(y1.deps@)
{
}

/// C01 as a theorem over the contracts of Linear::interp_into / calc_frac / get_lower_index:
/// the value written to lane j is the straight line through the two bracketing data points;
/// hence knots are reproduced and the result stays between the two bracketing values.
pub proof fn thm_C01<S>(it: &Interp1D<S>, i: int, x: T, j: int, r: T)
    requires it.wf(), is_fin(x), in_closed_range(it.x@, x), bracket(it.x@, x, i), 0 <= j < it.lanes(),
             is_fin(it.data.rows@[i][j]), is_fin(it.data.rows@[i + 1][j]),
             linear_ok(r, it, i, x, j),
    ensures ({
        let (x1, y1, x2, y2) = (it.x@[i]@, it.data.rows@[i][j]@, it.x@[i + 1]@, it.data.rows@[i + 1][j]@);
        &&& x1 <= x@ <= x2 && x1 < x2
        &&& is_fin(r) && r@ == line(x1, y1, x2, y2, x@)
        &&& x@ == x1 ==> r@ == y1
        &&& x@ == x2 ==> r@ == y2
        &&& rmin(y1, y2) <= r@ <= rmax(y1, y2)
    })
{
    let (x1, y1, x2, y2) = (it.x@[i]@, it.data.rows@[i][j]@, it.x@[i + 1]@, it.data.rows@[i + 1][j]@);
    assert(is_fin(it.x@[i]) && is_fin(it.x@[i + 1]));
    assert(x1 < x2);
    assert(x1 <= x@ <= x2) by {
        if t_ge(x, it.x@[it.x@.len() - 1]) { assert(i == it.x@.len() - 2); }
        if t_le(x, it.x@[0]) { assert(i == 0); }
    }
    L_line_at_x1(x1, y1, x2, y2);
    L_line_at_x2(x1, y1, x2, y2);
    if y1 <= y2 {
        L_line_lower_bound_rising(x1, y1, x2, y2, x@);
        L_line_upper_bound_rising(x1, y1, x2, y2, x@);
    } else {
        L_line_lower_bound_falling(x1, y1, x2, y2, x@);
        L_line_upper_bound_falling(x1, y1, x2, y2, x@);
    }
}

/// labelling of the inputs for the dependency claims (C08 / C20): every input cell carries exactly its own name
pub open spec fn labelled1<S>(it: &Interp1D<S>, x: T) -> bool {
    &&& x.deps@ =~= set![Cell::Query]
    &&& forall|i: int| 0 <= i < it.x@.len() ==> (#[trigger] it.x@[i]).deps@ =~= set![Cell::Axis(i)]
    &&& forall|i: int, j: int| 0 <= i < it.data.rows@.len() && 0 <= j < it.data.rows@[i].len() ==> (#[trigger] it.data.rows@[i][j]).deps@ =~= set![Cell::Data(i, 0, j)]
}
/// C20 / C08 (Linear): lane j of the result depends on the query, the two bracketing knots and
/// the two bracketing data values OF LANE j — nothing else
pub proof fn thm_C20_linear<S>(it: &Interp1D<S>, i: int, x: T, j: int, r: T)
    requires it.wf(), labelled1(it, x), 0 <= i <= it.x@.len() - 2, 0 <= j < it.lanes(), linear_ok(r, it, i, x, j),
    ensures r.deps@.subset_of(set![Cell::Query, Cell::Axis(i), Cell::Axis(i + 1), Cell::Data(i, 0, j), Cell::Data(i + 1, 0, j)])
{
    assert(it.data.rows@[i].len() == it.data.rows@[0].len());
    assert(it.data.rows@[i + 1].len() == it.data.rows@[0].len());
}
