// ---- specs/linear_lemmas.rs : what the term `cf` means under A_exact (machine arithmetic treated as mathematical)
// `line` is defined once, in contracts/lemmas/linear.lem (imported above)
pub open spec fn rmin(a: real, b: real) -> real { if a <= b { a } else { b } }
pub open spec fn rmax(a: real, b: real) -> real { if a <= b { b } else { a } }

/// the value of the rounding-operator term is the straight line through the two points
pub proof fn lemma_cf_is_line(x1: T, y1: T, x2: T, y2: T, x: T)
    requires x1@ != x2@
    ensures cf(x1, y1, x2, y2, x)@ == line(x1@, y1@, x2@, y2@, x@)
{
    broadcast use A_exact;
}
/// finite inputs with distinct abscissae give a finite result (no NaN from 0/0)
pub proof fn lemma_cf_finite(x1: T, y1: T, x2: T, y2: T, x: T)
    requires is_fin(x1), is_fin(y1), is_fin(x2), is_fin(y2), is_fin(x), x1@ != x2@
    ensures is_fin(cf(x1, y1, x2, y2, x))
{
    broadcast use A_exact;
}
/// explicit data flow: the result depends on exactly its five operands
pub proof fn lemma_cf_deps(x1: T, y1: T, x2: T, y2: T, x: T)
    ensures cf(x1, y1, x2, y2, x).deps@ =~= y2.deps@.union(y1.deps@).union(x2.deps@.union(x1.deps@)).union(x.deps@.union(x1.deps@)).union(y1.deps@)
{
}

/// C01 as a theorem over the contracts of Linear::interp_into / calc_frac / get_lower_index:
/// the value written to lane j is the straight line through the two bracketing data points;
/// hence knots are reproduced and the result stays between the two bracketing values.
pub proof fn thm_C01<S>(it: &Interp1D<S>, i: int, x: T, j: int)
    requires it.wf(), is_fin(x), in_range(it.x@, x), bracket(it.x@, x, i), 0 <= j < it.lanes(),
             is_fin(it.data.rows@[i][j]), is_fin(it.data.rows@[i + 1][j]),
    ensures ({
        let v = linear_at(it, i, x, j);
        let (x1, y1, x2, y2) = (it.x@[i]@, it.data.rows@[i][j]@, it.x@[i + 1]@, it.data.rows@[i + 1][j]@);
        &&& x1 <= x@ <= x2 && x1 < x2
        &&& is_fin(v) && v@ == line(x1, y1, x2, y2, x@)
        &&& x@ == x1 ==> v@ == y1
        &&& x@ == x2 ==> v@ == y2
        &&& rmin(y1, y2) <= v@ <= rmax(y1, y2)
    })
{
    let (x1, y1, x2, y2) = (it.x@[i]@, it.data.rows@[i][j]@, it.x@[i + 1]@, it.data.rows@[i + 1][j]@);
    assert(is_fin(it.x@[i]) && is_fin(it.x@[i + 1]));
    assert(x1 < x2);
    assert(x1 <= x@ <= x2) by {
        if t_ge(x, it.x@[it.x@.len() - 1]) { assert(i == it.x@.len() - 2); }
        if t_le(x, it.x@[0]) { assert(i == 0); }
    }
    lemma_cf_is_line(it.x@[i], it.data.rows@[i][j], it.x@[i + 1], it.data.rows@[i + 1][j], x);
    lemma_cf_finite(it.x@[i], it.data.rows@[i][j], it.x@[i + 1], it.data.rows@[i + 1][j], x);
    L_line_at_x1(x1, y1, x2, y2);
    L_line_at_x2(x1, y1, x2, y2);
    if y1 <= y2 {
        L_line_lower_bound_rising(x1, y1, x2, y2, x@);
        L_line_upper_bound_rising(x1, y1, x2, y2, x@);
    } else {
        L_line_lower_bound_falling(x1, y1, x2, y2, x@);
        L_line_upper_bound_falling(x1, y1, x2, y2, x@);
    }
}
