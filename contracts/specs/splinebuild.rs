// ---- specs/splinebuild.rs : shim for CubicSpline::build (selection of the extrapolation mode, C05/C06/C07)
pub struct CubicSplineStrategy { pub a: ArrD, pub b: ArrD, pub extrapolate: Extrapolate }
impl CubicSpline {
    /// the spline construction itself is outside Verus' reach (bounded stand-in: engine S); no contract is assumed
    #[verifier::external_body]
    pub fn calc_coefficients(&self, x: &Arr1, data: &ArrD) -> (r: Result<(ArrD, ArrD), BuilderError>) { unimplemented!() }
}
pub trait StrategyBuilderShim: Sized {
    type FinishedStrat;
    fn build(self, x: &Arr1, data: &ArrD) -> Result<Self::FinishedStrat, BuilderError>;
}
pub open spec fn extrapolate_mode(flag: bool, b: BoundaryCondition) -> Extrapolate {
    if !flag { Extrapolate::No } else if b is Periodic { Extrapolate::Periodic } else { Extrapolate::Yes }
}
