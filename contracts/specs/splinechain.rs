// ---- specs/splinechain.rs : CubicSpline::build on top of the calc_coefficients contract (C02 / C03 chain)
pub struct CubicSplineStrategy { pub a: ArrD, pub b: ArrD, pub extrapolate: Extrapolate }
/// the builders call the strategy builder only with at least MINIMUM_DATA_LENGHT = 3 rows and an axis of the same length
/// (Interp1DBuilder::build, proved in program `builders`: C10); rectangular data is the shim's model of an n-d array
pub trait StrategyBuilderShim: Sized {
    type FinishedStrat;
    spec fn build_post(&self, x: &Arr1, data: &ArrD, r: Result<Self::FinishedStrat, BuilderError>) -> bool;
    fn build(self, x: &Arr1, data: &ArrD) -> (r: Result<Self::FinishedStrat, BuilderError>)
        requires data.rows@.len() >= 3, x@.len() == data.rows@.len(), rect(data.rows@, data.rows@[0].len() as int)
        ensures self.build_post(x, data, r);
}
pub open spec fn extrapolate_mode(flag: bool, b: BoundaryCondition) -> Extrapolate {
    if !flag { Extrapolate::No } else if b is Periodic { Extrapolate::Periodic } else { Extrapolate::Yes }
}
/// what CubicSpline::build hands to the evaluation: coefficient arrays that come from the slopes of the spline system
pub open spec fn spline_built(s: CubicSplineStrategy, x: Seq<T>, y: Seq<Seq<T>>, sd: SingleBoundary<T>) -> bool {
    let n = y.len() as int; let nl = y[0].len() as int;
    &&& s.a.rows@.len() == n - 1 && s.b.rows@.len() == n - 1 && rect(s.a.rows@, nl) && rect(s.b.rows@, nl)
    &&& forall|i: int, j: int| 0 <= i < n - 1 && 0 <= j < nl ==> coef_from_system(#[trigger] s.a.rows@[i][j], s.b.rows@[i][j], x, y, sd, n, nl, i, j)
}

/// C02, end of the chain: for the coefficient VALUES stored in the strategy, the second derivative of piece i at its left
/// knot equals the second derivative of piece i-1 at its right knot — every interior knot, every lane, every n >= 3
pub proof fn thm_C02_C2_stored_coefficients(s: CubicSplineStrategy, x: Seq<T>, y: Seq<Seq<T>>, sd: SingleBoundary<T>, i: int, j: int)
    requires y.len() >= 3, x.len() == y.len(), axis_incr(x), spline_built(s, x, y, sd), 1 <= i < y.len() - 1, 0 <= j < y[0].len(),
             !(y.len() == 3 && eff_tag(sd) == 0)
    ensures
        2real * herm_c2(x[i]@, x[i + 1]@, y[i][j]@, y[i + 1][j]@, s.a.rows@[i][j]@, s.b.rows@[i][j]@)
          == 2real * herm_c2(x[i - 1]@, x[i]@, y[i - 1][j]@, y[i][j]@, s.a.rows@[i - 1][j]@, s.b.rows@[i - 1][j]@)
             + 6real * herm_c3(x[i - 1]@, x[i]@, y[i - 1][j]@, y[i][j]@, s.a.rows@[i - 1][j]@, s.b.rows@[i - 1][j]@) * (x[i]@ - x[i - 1]@)
{
    let n = y.len() as int; let nl = y[0].len() as int;
    thm_C02_C2_every_knot(x, y, sd, sd, n, nl, j, i);
    assert(coef_from_system(s.a.rows@[i][j], s.b.rows@[i][j], x, y, sd, n, nl, i, j));
    assert(coef_from_system(s.a.rows@[i - 1][j], s.b.rows@[i - 1][j], x, y, sd, n, nl, i - 1, j));
}
/// C03, end of the chain, whole-set conditions: Natural S''=0 at both ends, Clamped S'=0 at both ends,
/// NotAKnot S''' continuous across the first and the last interior knot — for the coefficient VALUES stored in the strategy
pub proof fn thm_C03_stored_coefficients(s: CubicSplineStrategy, x: Seq<T>, y: Seq<Seq<T>>, sd: SingleBoundary<T>, j: int)
    requires y.len() >= 3, x.len() == y.len(), axis_incr(x), spline_built(s, x, y, sd), 0 <= j < y[0].len(),
             !(y.len() == 3 && eff_tag(sd) == 0)
    ensures ({
        let n = y.len() as int;
        let a0 = s.a.rows@[0][j]@; let b0 = s.b.rows@[0][j]@; let a1 = s.a.rows@[1][j]@; let b1 = s.b.rows@[1][j]@;
        let am = s.a.rows@[n - 2][j]@; let bm = s.b.rows@[n - 2][j]@; let al = s.a.rows@[n - 3][j]@; let bl_ = s.b.rows@[n - 3][j]@;
        &&& sd is Natural ==> (2real * herm_c2(x[0]@, x[1]@, y[0][j]@, y[1][j]@, a0, b0) == 0real
              && 2real * herm_c2(x[n - 2]@, x[n - 1]@, y[n - 2][j]@, y[n - 1][j]@, am, bm) + 6real * herm_c3(x[n - 2]@, x[n - 1]@, y[n - 2][j]@, y[n - 1][j]@, am, bm) * (x[n - 1]@ - x[n - 2]@) == 0real)
        &&& sd is Clamped ==> (herm_c1(x[0]@, x[1]@, y[0][j]@, y[1][j]@, a0, b0) == 0real
              && herm_c1(x[n - 2]@, x[n - 1]@, y[n - 2][j]@, y[n - 1][j]@, am, bm) + 2real * herm_c2(x[n - 2]@, x[n - 1]@, y[n - 2][j]@, y[n - 1][j]@, am, bm) * (x[n - 1]@ - x[n - 2]@)
                 + 3real * herm_c3(x[n - 2]@, x[n - 1]@, y[n - 2][j]@, y[n - 1][j]@, am, bm) * (x[n - 1]@ - x[n - 2]@) * (x[n - 1]@ - x[n - 2]@) == 0real)
        &&& sd is NotAKnot ==> (6real * herm_c3(x[1]@, x[2]@, y[1][j]@, y[2][j]@, a1, b1) == 6real * herm_c3(x[0]@, x[1]@, y[0][j]@, y[1][j]@, a0, b0)
              && 6real * herm_c3(x[n - 2]@, x[n - 1]@, y[n - 2][j]@, y[n - 1][j]@, am, bm) == 6real * herm_c3(x[n - 3]@, x[n - 2]@, y[n - 3][j]@, y[n - 2][j]@, al, bl_))
    })
{
    let n = y.len() as int; let nl = y[0].len() as int;
    thm_C03_left_end(x, y, sd, sd, n, nl, j);
    thm_C03_right_end(x, y, sd, sd, n, nl, j);
    assert(coef_from_system(s.a.rows@[0][j], s.b.rows@[0][j], x, y, sd, n, nl, 0, j));
    assert(coef_from_system(s.a.rows@[1][j], s.b.rows@[1][j], x, y, sd, n, nl, 1, j));
    assert(coef_from_system(s.a.rows@[n - 2][j], s.b.rows@[n - 2][j], x, y, sd, n, nl, n - 2, j));
    assert(coef_from_system(s.a.rows@[n - 3][j], s.b.rows@[n - 3][j], x, y, sd, n, nl, n - 3, j));
}

/// C16, end of the chain: the strategy built from samples of a cubic (NotAKnot, n >= 4: any cubic; Natural: second derivative
/// zero at both ends, i.e. straight lines; Clamped: zero slope at both ends) evaluates to that cubic at EVERY query of EVERY piece
pub proof fn thm_C16_spline_reproduces_cubic(s: CubicSplineStrategy, x: Seq<T>, y: Seq<Seq<T>>, sd: SingleBoundary<T>, j: int,
                                             c0: real, c1: real, c2: real, c3: real, i: int, q: real)
    requires y.len() >= 3, x.len() == y.len(), axis_incr(x), spline_built(s, x, y, sd), 0 <= j < y[0].len(), 0 <= i < y.len() - 1,
             !(y.len() == 3 && eff_tag(sd) == 0),
             samples_cubic(x, y, j, c0, c1, c2, c3), end_matches(sd, x[0]@, c1, c2, c3), end_matches(sd, x[y.len() - 1]@, c1, c2, c3)
    ensures herm(x[i]@, x[i + 1]@, y[i][j]@, y[i + 1][j]@, s.a.rows@[i][j]@, s.b.rows@[i][j]@, q) == pc(c0, c1, c2, c3, q)
{
    let n = y.len() as int; let nl = y[0].len() as int;
    thm_C16_slopes_of_a_cubic(x, y, sd, sd, n, nl, j, c0, c1, c2, c3, i);
    thm_C16_slopes_of_a_cubic(x, y, sd, sd, n, nl, j, c0, c1, c2, c3, i + 1);
    assert(coef_from_system(s.a.rows@[i][j], s.b.rows@[i][j], x, y, sd, n, nl, i, j));
    assert(hx(x, i) > 0real);
    assert(y[i][j]@ == pc(c0, c1, c2, c3, x[i]@) && y[i + 1][j]@ == pc(c0, c1, c2, c3, x[i + 1]@));
    L_cubic_hermite_exact(x[i]@, x[i + 1]@, c0, c1, c2, c3, q);
}
