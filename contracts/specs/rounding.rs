// ---- specs/rounding.rs : the "few ulps" clause of C01 — sound for IEEE floats, proved from the standard rounding
// model (A_float, (1+delta) form), NOT from exact arithmetic.  The value Linear::calc_frac computes for a query
// between its two knots differs from the exact straight line by at most 12*u*max(|y1|,|y2|) plus underflow terms.
pub open spec fn rmax2(a: real, b: real) -> real { if rabs(a) >= rabs(b) { rabs(a) } else { rabs(b) } }

pub proof fn thm_C01_rounding(x1: real, y1: real, x2: real, y2: real, x: real)
    requires x1 < x2, x1 <= x, x <= x2,
    ensures ({
        let r = cf_val(x1, y1, x2, y2, x);
        let exact = line(x1, y1, x2, y2, x);
        let m = rmax2(y1, y2);
        let dx = fl_sub(x2, x1);
        rabs(r - exact) <= 12real * uu() * m + 2real * eta() * dx + 2real * eta()
    })
{
    let big_m = rmax2(y1, y2);
    let dd = y2 - y1; let h = x2 - x1; let tau = x - x1;
    // ---- the six roundings
    ax_rel_sub(y2, y1); ax_rel_sub(x2, x1); ax_rel_sub(x, x1);
    broadcast use ax_fl_sub;
    let dy = fl_sub(y2, y1); let dx = fl_sub(x2, x1); let t = fl_sub(x, x1);
    let d0 = del_sub(y2, y1); let d1 = del_sub(x2, x1); let d2 = del_sub(x, x1);
    assert(dx > 0real);
    assert(t >= 0real);
    ax_fl_sub_mono(x, x1, x2, x1);
    assert(t <= dx);
    ax_rel_div(dy, dx);
    let mm = fl_div(dy, dx); let d3 = del_div(dy, dx); let e3 = und_div(dy, dx);
    ax_rel_mul(mm, t);
    let p = fl_mul(mm, t); let d4 = del_mul(mm, t); let e4 = und_mul(mm, t);
    ax_rel_add(p, y1);
    let r = fl_add(p, y1); let d5 = del_add(p, y1);
    assert(r == cf_val(x1, y1, x2, y2, x));
    // ---- weights
    let s = tau / h;
    L_weight_range(x1, x2, x);
    L_line_as_weight(x1, y1, x2, y2, x);
    let w = dd * s;
    assert(line(x1, y1, x2, y2, x) == y1 + w);
    // ---- (dy/dx)*t = w * rho
    let rho = (1real + d0) * (1real + d2) / (1real + d1);
    assert(dy == dd * (1real + d0));
    assert(dx == h * (1real + d1));
    assert(t == tau * (1real + d2));
    L_slope_times_offset(dd, h, tau, d0, d1, d2);
    let a = dy / dx;
    assert(a * t == w * rho);
    L_ratio_upper(d0, d1, d2); L_ratio_lower(d0, d1, d2);
    // ---- p = w * rho(1+d3)(1+d4) + g0
    L_product_split(a, t, d3, d4, e3, e4);
    let five = rho * (1real + d3) * (1real + d4);
    let g0 = e3 * t * (1real + d4) + e4;
    assert(p == (a * t) * ((1real + d3) * (1real + d4)) + g0);
    assert((a * t) * ((1real + d3) * (1real + d4)) == w * five) by(nonlinear_arith)
        requires a * t == w * rho, five == rho * (1real + d3) * (1real + d4);
    L_five_upper(rho, d3, d4); L_five_lower(rho, d3, d4);
    L_underflow_term_bound(e3, e4, t, dx, d4, eta());
    // ---- sizes
    assert(rabs(y1) <= big_m && rabs(y2) <= big_m);
    assert(dd <= 2real * big_m && dd >= -(2real * big_m));
    L_ds_bound(big_m, dd, s);
    let eps = five - 1real;
    L_slope_term_bound(big_m, w, eps);
    assert(w * five == w + w * eps) by(nonlinear_arith) requires eps == five - 1real;
    let g = w * eps + g0;
    assert(p == w + g);
    let big_g = 2real * big_m * 0.00000052real + (eta() * dx * 1.0000001real + eta());
    assert(g <= big_g && g >= -big_g);
    assert(eta() * dx >= 0real) by(nonlinear_arith) requires dx > 0real, eta() > 0real;
    assert(big_g >= 0real);
    L_convex_bound(big_m, y1, y2, s);
    assert(w + y1 == y1 + (y2 - y1) * s);
    L_final_add_bound(big_m, y1, w, g, big_g, d5);
    assert(r == (w + g + y1) * (1real + d5));
    // r - exact within big_g + u*(M + big_g)
    assert(rabs(r - (y1 + w)) <= big_g + 0.0000001real * (big_m + big_g));
    assert(0.0000001real * big_g <= big_g) by(nonlinear_arith) requires big_g >= 0real;
}
