// ---- specs/parabola.rs : the 3-point NotAKnot / NotAKnot arm of CubicSpline::solve_for_k (the parabola through three points)
pub open spec fn par_up(x: Seq<T>) -> Seq<real> { seq![1real, hx(x, 0), 0real] }
pub open spec fn par_mid(x: Seq<T>) -> Seq<real> { seq![1real, 2real * (hx(x, 0) + hx(x, 1)), 1real] }
pub open spec fn par_low(x: Seq<T>) -> Seq<real> { seq![0real, hx(x, 1), 1real] }
pub open spec fn par_rhs_entry(x: Seq<T>, y: Seq<Seq<T>>, i: int, j: int) -> real {
    if i == 0 { slope(x, y, 0, j) * 2real }
    else if i == 1 { (slope(x, y, 1, j) * hx(x, 0) + slope(x, y, 0, j) * hx(x, 1)) * 3real }
    else { slope(x, y, 1, j) * 2real }
}
pub open spec fn par_rhs(x: Seq<T>, y: Seq<Seq<T>>, nl: int) -> Seq<Seq<real>> { Seq::new(3, |i: int| Seq::new(nl as nat, |j: int| par_rhs_entry(x, y, i, j))) }
pub open spec fn kpar(x: Seq<T>, y: Seq<Seq<T>>, nl: int, j: int, i: int) -> real { ksol(par_up(x), par_mid(x), par_low(x), par_rhs(x, y, nl), j, 3, i) }
pub open spec fn is_parabola_arm(b: InternalBoundary<T>, n: int) -> bool {
    n == 3 && (b is NotAKnot || (b matches InternalBoundary::Mixed { left, right } && left is NotAKnot && right is NotAKnot))
}
pub proof fn thm_par_pivots_nonzero(x: Seq<T>)
    requires x.len() == 3, axis_incr(x)
    ensures pivots_ok(par_up(x), par_mid(x), par_low(x), 3)
{
    let up = par_up(x); let mid = par_mid(x); let low = par_low(x);
    let h0 = hx(x, 0); let h1 = hx(x, 1);
    assert(h0 > 0real && h1 > 0real);
    assert(piv(up, mid, low, 0) == 1real);
    assert(piv(up, mid, low, 1) == 2real * (h0 + h1) - (h1 / 1real) * 1real);
    assert(piv(up, mid, low, 1) == 2real * h0 + h1) by(nonlinear_arith) requires piv(up, mid, low, 1) == 2real * (h0 + h1) - (h1 / 1real) * 1real;
    let p1 = piv(up, mid, low, 1);
    assert(piv(up, mid, low, 2) == 1real - (1real / p1) * h0);
    assert(piv(up, mid, low, 2) > 0real) by(nonlinear_arith) requires piv(up, mid, low, 2) == 1real - (1real / p1) * h0, p1 == 2real * h0 + h1, h0 > 0real, h1 > 0real;
    assert forall|i: int| 0 <= i < 3 implies #[trigger] piv(up, mid, low, i) != 0real by { }
}

/// C03 (n = 3, both ends NotAKnot): both pieces are quadratic (cubic coefficient 0) and S'' is continuous at the middle knot,
/// i.e. the spline is ONE parabola through the three points
pub proof fn thm_parabola(x: Seq<T>, y: Seq<Seq<T>>, nl: int, j: int)
    requires x.len() == 3, axis_incr(x), 0 <= j < nl
    ensures ({
        let k0 = kpar(x, y, nl, j, 0); let k1 = kpar(x, y, nl, j, 1); let k2 = kpar(x, y, nl, j, 2);
        &&& aK(x[0]@, x[1]@, y[0][j]@, y[1][j]@, k0) == bK(x[0]@, x[1]@, y[0][j]@, y[1][j]@, k1)
        &&& aK(x[1]@, x[2]@, y[1][j]@, y[2][j]@, k1) == bK(x[1]@, x[2]@, y[1][j]@, y[2][j]@, k2)
        &&& dd_at_left_end(x[1]@, x[2]@, y[1][j]@, y[2][j]@, k1, k2) == dd_at_right_end(x[0]@, x[1]@, y[0][j]@, y[1][j]@, k0, k1)
    })
{
    thm_par_pivots_nonzero(x);
    let up = par_up(x); let mid = par_mid(x); let low = par_low(x); let r = par_rhs(x, y, nl);
    let h0 = hx(x, 0); let h1 = hx(x, 1);
    assert(h0 > 0real && h1 > 0real);
    thm_thomas_solves(up, mid, low, r, j, 3, 0);
    thm_thomas_solves(up, mid, low, r, j, 3, 1);
    thm_thomas_solves(up, mid, low, r, j, 3, 2);
    let k0 = kpar(x, y, nl, j, 0); let k1 = kpar(x, y, nl, j, 1); let k2 = kpar(x, y, nl, j, 2);
    assert(r[0][j] == par_rhs_entry(x, y, 0, j) && r[1][j] == par_rhs_entry(x, y, 1, j) && r[2][j] == par_rhs_entry(x, y, 2, j));
    assert(up[0] == 1real && mid[0] == 1real && low[1] == h1 && mid[1] == 2real * (h0 + h1) && up[1] == h0 && low[2] == 1real && mid[2] == 1real);
    let dy0 = y[1][j]@ - y[0][j]@; let dy1 = y[2][j]@ - y[1][j]@;
    L_par_c3_zero(k0, k1, h0, dy0);
    L_par_c3_zero(k1, k2, h1, dy1);
    L_per_rhs_wrap(h1, h0, y[1][j]@, y[2][j]@, y[0][j]@, y[1][j]@);
    assert(res_interior(x[0]@, x[1]@, x[2]@, y[0][j]@, y[1][j]@, y[2][j]@, k0, k1, k2) == 0real);
    thm_rows_are_the_conditions(x[0]@, x[1]@, x[2]@, y[0][j]@, y[1][j]@, y[2][j]@, k0, k1, k2, 0real);
}
