// ---- specs/linear.rs : the value computed by Linear::calc_frac, as a term over the rounding operators
pub open spec fn cf(x1: T, y1: T, x2: T, y2: T, x: T) -> T {
    t_add(t_mul(t_div(t_sub(y2, y1), t_sub(x2, x1)), t_sub(x, x1)), y1)
}
