// ---- specs/linear.rs : what Linear::calc_frac computes
/// the exact operation sequence, as a term over the rounding operators (needed only where
/// the claim must be sound for floats: the index guess of C11)
pub open spec fn cf(x1: T, y1: T, x2: T, y2: T, x: T) -> T {
    t_add(t_mul(t_div(t_sub(y2, y1), t_sub(x2, x1)), t_sub(x, x1)), y1)
}
pub open spec fn deps5(a: T, b: T, c: T, d: T, e: T) -> Set<Cell> {
    a.deps@.union(b.deps@).union(c.deps@).union(d.deps@).union(e.deps@)
}
/// value-level contract (machine arithmetic treated as mathematical): r is the straight line
/// through (x1,y1),(x2,y2) at x; it depends on nothing but its five operands; finite in, finite out
pub open spec fn lin_ok(r: T, x1: T, y1: T, x2: T, y2: T, x: T) -> bool {
    &&& x1@ != x2@ ==> r@ == line(x1@, y1@, x2@, y2@, x@)
    &&& r.deps@.subset_of(deps5(x1, y1, x2, y2, x))
    &&& (is_fin(x1) && is_fin(y1) && is_fin(x2) && is_fin(y2) && is_fin(x) && x1@ != x2@) ==> is_fin(r)
}
