// ---- specs/axis.rs : what a valid interpolation axis is (contract vocabulary, not code)
pub open spec fn all_fin(s: Seq<T>) -> bool { forall|i: int| 0 <= i < s.len() ==> is_fin(#[trigger] s[i]) }
pub open spec fn strictly_increasing(s: Seq<T>) -> bool {
    forall|i: int, j: int| 0 <= i < j < s.len() ==> (#[trigger] s[i])@ < (#[trigger] s[j])@
}
/// the floating-point side conditions of C11: "span and (len-1)/span are finite", phrased over
/// the constants of the rounding model (they hold for every finite f32 / f64 axis of
/// fewer than 10^6 (f32) resp. 9*10^14 (f64) points)
pub open spec fn guess_ok(s: Seq<T>) -> bool {
    &&& s.len() >= 2
    &&& (s.len() - 1) as real * uu() <= 0.1real
    &&& fl_sub(s[s.len() - 1]@, s[0]@) * eta() <= 0.001real
    &&& s.len() - 1 <= pow2_53()
}
pub open spec fn axis_ok(s: Seq<T>) -> bool {
    s.len() >= 2 && all_fin(s) && strictly_increasing(s) && guess_ok(s)
}
/// i is the bracket index of q in axis s (the C11 postcondition)
pub open spec fn bracket(s: Seq<T>, q: T, i: int) -> bool {
    &&& 0 <= i <= s.len() - 2
    &&& t_le(q, s[0]) ==> i == 0
    &&& t_ge(q, s[s.len() - 1]) ==> i == s.len() - 2
    &&& (t_lt(s[0], q) && t_lt(q, s[s.len() - 1])) ==> (t_le(s[i], q) && t_lt(q, s[i + 1]))
}
/// for a strictly increasing axis the bracket is unique: it is a function of the order
/// relations between q and the knots only (used by C20)
pub proof fn lemma_bracket_unique(s: Seq<T>, q: T, i: int, j: int)
    requires s.len() >= 2, all_fin(s), strictly_increasing(s), !is_nan(q), bracket(s, q, i), bracket(s, q, j)
    ensures i == j
{
    if t_le(q, s[0]) {
    } else if t_ge(q, s[s.len() - 1]) {
    } else {
        assert(t_lt(s[0], q) && t_lt(q, s[s.len() - 1]));
        if i < j {
            assert(s[i + 1]@ <= s[j]@) by { if i + 1 < j { assert(s[i + 1]@ < s[j]@); } }
        } else if j < i {
            assert(s[j + 1]@ <= s[i]@) by { if j + 1 < i { assert(s[j + 1]@ < s[i]@); } }
        }
    }
}
