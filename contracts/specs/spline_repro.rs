// ---- specs/spline_repro.rs : C16 for the spline, every n: data sampled from a cubic whose end values match the end conditions
//      gives slopes k_i = p'(x_i) (they solve every row; the solution is unique), and the Hermite pieces then ARE the cubic
pub open spec fn samples_cubic(x: Seq<T>, y: Seq<Seq<T>>, j: int, c0: real, c1: real, c2: real, c3: real) -> bool {
    forall|i: int| 0 <= i < y.len() ==> (#[trigger] y[i])[j]@ == pc(c0, c1, c2, c3, x[i]@)
}
/// NotAKnot asks nothing of the cubic; a derivative end condition must prescribe the cubic's own derivative there
pub open spec fn end_matches(b: SingleBoundary<T>, xe: real, c1: real, c2: real, c3: real) -> bool {
    (eff_tag(b) == 1 ==> eff_val(b) == dpc(c1, c2, c3, xe)) && (eff_tag(b) == 2 ==> eff_val(b) == ddpc(c2, c3, xe))
}
pub proof fn thm_C16_slopes_of_a_cubic(x: Seq<T>, y: Seq<Seq<T>>, bl: SingleBoundary<T>, br: SingleBoundary<T>, n: int, nl: int, j: int,
                                       c0: real, c1: real, c2: real, c3: real, i: int)
    requires n >= 3, x.len() == n, y.len() == n, axis_incr(x), 0 <= j < nl, 0 <= i < n, !(n == 3 && eff_tag(bl) == 0 && eff_tag(br) == 0),
             samples_cubic(x, y, j, c0, c1, c2, c3), end_matches(bl, x[0]@, c1, c2, c3), end_matches(br, x[n - 1]@, c1, c2, c3)
    ensures ksys(x, y, bl, br, n, nl, j, i) == dpc(c1, c2, c3, x[i]@)
{
    let kk = Seq::new(n as nat, |t: int| dpc(c1, c2, c3, x[t]@));
    let up = sys_up(x, bl, n); let mid = sys_mid(x, bl, br, n); let low = sys_low(x, br, n); let rhs = sys_rhs(x, y, bl, br, n, nl);
    assert(y[0][j]@ == pc(c0, c1, c2, c3, x[0]@) && y[1][j]@ == pc(c0, c1, c2, c3, x[1]@) && y[2][j]@ == pc(c0, c1, c2, c3, x[2]@));
    assert(y[n - 1][j]@ == pc(c0, c1, c2, c3, x[n - 1]@) && y[n - 2][j]@ == pc(c0, c1, c2, c3, x[n - 2]@) && y[n - 3][j]@ == pc(c0, c1, c2, c3, x[n - 3]@));
    assert(hx(x, 0) > 0real && hx(x, 1) > 0real && hx(x, n - 2) > 0real && hx(x, n - 3) > 0real);
    assert forall|t: int| 0 <= t < n implies #[trigger] row_holds(up, mid, low, rhs, j, n, kk, t) by {
        assert(rhs[t][j] == rhs_entry(x, y, bl, br, n, t, j));
        assert(up[t] == up_entry(x, bl, n, t) && mid[t] == mid_entry(x, bl, br, n, t) && low[t] == low_entry(x, br, n, t));
        assert(kk[t] == dpc(c1, c2, c3, x[t]@));
        if t > 0 { assert(kk[t - 1] == dpc(c1, c2, c3, x[t - 1]@)); }
        if t < n - 1 { assert(kk[t + 1] == dpc(c1, c2, c3, x[t + 1]@)); }
        if t == 0 {
            let x0 = x[0]@; let x1 = x[1]@; let x2 = x[2]@;
            if eff_tag(bl) == 0 {
                L_cubic_nak_left_row(x0, x1, x2, c0, c1, c2, c3);
                assert(row_holds(up, mid, low, rhs, j, n, kk, t));
            } else if eff_tag(bl) == 2 {
                L_cubic_second_left_row(x0, x1, c0, c1, c2, c3);
                let h = x1 - x0; let v = eff_val(bl);
                assert(v * (h * h) / 2real == v * h * h / 2real) by(nonlinear_arith);
                assert(row_holds(up, mid, low, rhs, j, n, kk, t));
            } else {
                assert(row_holds(up, mid, low, rhs, j, n, kk, t));
            }
        } else if t == n - 1 {
            let x0 = x[n - 3]@; let x1 = x[n - 2]@; let x2 = x[n - 1]@;
            if eff_tag(br) == 0 {
                L_cubic_nak_right_row(x0, x1, x2, c0, c1, c2, c3);
                assert(row_holds(up, mid, low, rhs, j, n, kk, t));
            } else if eff_tag(br) == 2 {
                L_cubic_second_right_row(x1, x2, c0, c1, c2, c3);
                let h = x2 - x1; let v = eff_val(br);
                assert(v * (h * h) / 2real == v * h * h / 2real) by(nonlinear_arith);
            }
        } else {
            assert(hx(x, t) > 0real && hx(x, t - 1) > 0real);
            assert(y[t][j]@ == pc(c0, c1, c2, c3, x[t]@) && y[t - 1][j]@ == pc(c0, c1, c2, c3, x[t - 1]@) && y[t + 1][j]@ == pc(c0, c1, c2, c3, x[t + 1]@));
            L_cubic_interior_row(x[t - 1]@, x[t]@, x[t + 1]@, c0, c1, c2, c3);
            assert(row_holds(up, mid, low, rhs, j, n, kk, t));
        }
    }
    thm_pivots_nonzero(x, bl, br, n);
    thm_thomas_unique(up, mid, low, rhs, j, n, kk, i);
}
