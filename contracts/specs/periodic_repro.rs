// ---- specs/periodic_repro.rs : C16 for the periodic spline: constant data is reproduced (all slopes are zero), every n >= 4
pub proof fn thm_periodic_constant_slopes(x: Seq<T>, y: Seq<Seq<T>>, n: int, nl: int, j: int, c: real, i: int)
    requires n >= 4, x.len() == n, y.len() == n, axis_incr(x), 0 <= j < nl, 0 <= i < n,
             forall|t: int| 0 <= t < n ==> (#[trigger] y[t])[j]@ == c
    ensures kper(x, y, n, nl, j, i) == 0real
{
    thm_per_pivots_nonzero(x, n);
    thm_per_den_positive(x, n, nl, j);
    let up = per_up(x, n); let mid = per_mid(x, n); let low = per_low(x, n); let r1 = per_rhs1(x, y, n, nl);
    let m = n - 2;
    let zs = Seq::new(m as nat, |t: int| 0real);
    assert(hx(x, 0) > 0real && hx(x, n - 2) > 0real && hx(x, n - 3) > 0real);
    assert(y[0][j]@ == c && y[1][j]@ == c && y[n - 1][j]@ == c && y[n - 2][j]@ == c && y[n - 3][j]@ == c);
    assert forall|t: int| 0 <= t < m implies #[trigger] row_holds(up, mid, low, r1, j, m, zs, t) by {
        assert(r1[t][j] == per_rhs_entry(x, y, n, t, j));
        if t == 0 {
            assert(slope(x, y, n - 2, j) == 0real && slope(x, y, 0, j) == 0real) by(nonlinear_arith)
                requires slope(x, y, n - 2, j) == (y[n - 1][j]@ - y[n - 2][j]@) / hx(x, n - 2), slope(x, y, 0, j) == (y[1][j]@ - y[0][j]@) / hx(x, 0),
                         y[n - 1][j]@ == y[n - 2][j]@, y[1][j]@ == y[0][j]@, hx(x, n - 2) > 0real, hx(x, 0) > 0real;
            assert(r1[t][j] == 0real) by(nonlinear_arith) requires r1[t][j] == (slope(x, y, n - 2, j) * hx(x, 0) + slope(x, y, 0, j) * hx(x, n - 2)) * 3real, slope(x, y, n - 2, j) == 0real, slope(x, y, 0, j) == 0real;
        } else {
            assert(hx(x, t) > 0real && hx(x, t - 1) > 0real);
            assert(y[t][j]@ == c && y[t - 1][j]@ == c && y[t + 1][j]@ == c);
            assert(r1[t][j] == 0real) by(nonlinear_arith)
                requires r1[t][j] == 3real * (hx(x, t) * (y[t][j]@ - y[t - 1][j]@) / hx(x, t - 1) + hx(x, t - 1) * (y[t + 1][j]@ - y[t][j]@) / hx(x, t)),
                         y[t][j]@ == y[t - 1][j]@, y[t + 1][j]@ == y[t][j]@, hx(x, t) > 0real, hx(x, t - 1) > 0real;
        }
        assert(zs[t] == 0real);
        if t > 0 { assert(zs[t - 1] == 0real); }
        if t < m - 1 { assert(zs[t + 1] == 0real); }
        assert(row_lhs(up, mid, low, m, t, zs[t - 1], zs[t], zs[t + 1]) == 0real) by(nonlinear_arith)
            requires row_lhs(up, mid, low, m, t, zs[t - 1], zs[t], zs[t + 1]) == (if t > 0 { low[t] * zs[t - 1] } else { 0real }) + mid[t] * zs[t] + (if t < m - 1 { up[t] * zs[t + 1] } else { 0real }),
                     zs[t] == 0real, (t > 0 ==> zs[t - 1] == 0real), (t < m - 1 ==> zs[t + 1] == 0real);
    }
    thm_thomas_unique(up, mid, low, r1, j, m, zs, 0);
    thm_thomas_unique(up, mid, low, r1, j, m, zs, m - 1);
    if i <= n - 3 { thm_thomas_unique(up, mid, low, r1, j, m, zs, i); assert(zs[i] == 0real); }
    assert(zs[0] == 0real && zs[m - 1] == 0real);
    assert(per_k1(x, y, n, nl, j, 0) == 0real && per_k1(x, y, n, nl, j, n - 3) == 0real);
    // the closing right-hand side vanishes as well, so the eliminated slope is 0
    assert(slope(x, y, n - 3, j) == 0real && slope(x, y, n - 2, j) == 0real) by(nonlinear_arith)
        requires slope(x, y, n - 3, j) == (y[n - 2][j]@ - y[n - 3][j]@) / hx(x, n - 3), slope(x, y, n - 2, j) == (y[n - 1][j]@ - y[n - 2][j]@) / hx(x, n - 2),
                 y[n - 2][j]@ == y[n - 3][j]@, y[n - 1][j]@ == y[n - 2][j]@, hx(x, n - 3) > 0real, hx(x, n - 2) > 0real;
    let den = per_den(x, n, nl, j);
    assert(per_km(x, y, n, nl, j) == 0real) by(nonlinear_arith)
        requires per_km(x, y, n, nl, j) == (per_rhs_entry(x, y, n, n - 2, j) - per_k1(x, y, n, nl, j, 0) * hx(x, n - 3) - per_k1(x, y, n, nl, j, n - 3) * hx(x, n - 2)) / den,
                 per_rhs_entry(x, y, n, n - 2, j) == (slope(x, y, n - 3, j) * hx(x, n - 2) + slope(x, y, n - 2, j) * hx(x, n - 3)) * 3real,
                 slope(x, y, n - 3, j) == 0real, slope(x, y, n - 2, j) == 0real, per_k1(x, y, n, nl, j, 0) == 0real, per_k1(x, y, n, nl, j, n - 3) == 0real, den > 0real;
    assert(kper(x, y, n, nl, j, i) == 0real) by(nonlinear_arith)
        requires per_km(x, y, n, nl, j) == 0real, per_k1(x, y, n, nl, j, 0) == 0real, (i <= n - 3 ==> per_k1(x, y, n, nl, j, i) == 0real),
                 kper(x, y, n, nl, j, i) == (if i <= n - 3 { per_k1(x, y, n, nl, j, i) + per_km(x, y, n, nl, j) * per_k2(x, n, nl, j, i) } else if i == n - 2 { per_km(x, y, n, nl, j) } else { per_k1(x, y, n, nl, j, 0) + per_km(x, y, n, nl, j) * per_k2(x, n, nl, j, 0) });
}
