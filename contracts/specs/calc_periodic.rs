// ---- specs/calc_periodic.rs : CubicSpline::calc_coefficients for the Periodic end condition
pub open spec fn coef_from_periodic(a: T, b: T, x: Seq<T>, y: Seq<Seq<T>>, n: int, nl: int, i: int, j: int) -> bool {
    &&& a@ == aK(x[i]@, x[i + 1]@, y[i][j]@, y[i + 1][j]@, kper(x, y, n, nl, j, i))
    &&& b@ == bK(x[i]@, x[i + 1]@, y[i][j]@, y[i + 1][j]@, kper(x, y, n, nl, j, i + 1))
}
