// ---- specs/guess.rs : the even-spacing index guess never exceeds len-1 (sound for IEEE floats:
// proved from the standard rounding model A_float, not from exact arithmetic)
pub open spec fn cf_val(x1: real, y1: real, x2: real, y2: real, x: real) -> real {
    fl_add(fl_mul(fl_div(fl_sub(y2, y1), fl_sub(x2, x1)), fl_sub(x, x1)), y1)
}
pub proof fn guess_bound(x0: real, xl: real, x: real, n: int)
    requires x0 < x, x < xl, 2 <= n,
             (n - 1) as real * uu() <= 0.1real,
             fl_sub(xl, x0) * eta() <= 0.001real,
    ensures fl_sub(xl, x0) > 0real,
            0real <= cf_val(x0, 0real, xl, (n - 1) as real, x),
            cf_val(x0, 0real, xl, (n - 1) as real, x) < n as real,
{
    broadcast use A_float;
    let nm1 = (n - 1) as real;
    let s = fl_sub(xl, x0);
    let d = fl_sub(x, x0);
    let num = fl_sub(nm1, 0real);
    assert(num == nm1);
    assert(s > 0real);
    assert(d >= 0real);
    ax_fl_sub_mono(x, x0, xl, x0);
    assert(d <= s);
    let q = fl_div(num, s);
    let qe = nm1 / s;
    assert(qe >= 0real) by(nonlinear_arith) requires nm1 >= 0real, s > 0real, qe == nm1 / s;
    assert(qe * s == nm1) by(nonlinear_arith) requires s > 0real, qe == nm1 / s;
    assert(q >= 0real);
    assert(q <= qe * (1real + uu()) + eta());
    let p = fl_mul(q, d);
    assert(q * d >= 0real) by(nonlinear_arith) requires q >= 0real, d >= 0real;
    assert(p >= 0real);
    assert(p <= (q * d) * (1real + uu()) + eta());
    assert(q * d <= q * s) by(nonlinear_arith) requires q >= 0real, d <= s;
    assert(q * s <= (qe * (1real + uu()) + eta()) * s) by(nonlinear_arith)
        requires q <= qe * (1real + uu()) + eta(), s > 0real;
    assert((qe * (1real + uu()) + eta()) * s == nm1 * (1real + uu()) + eta() * s) by(nonlinear_arith)
        requires qe * s == nm1;
    let bound = nm1 * (1real + uu()) + eta() * s;
    assert(q * d <= bound);
    assert((q * d) * (1real + uu()) <= bound * (1real + uu())) by(nonlinear_arith)
        requires q * d <= bound, uu() >= 0real;
    // bound*(1+u) = nm1 + nm1*u*(2+u) + eta*s*(1+u)
    let nu = nm1 * uu();
    assert(bound * (1real + uu()) == nm1 + 2real * nu + nu * uu() + (s * eta()) * (1real + uu())) by(nonlinear_arith)
        requires bound == nm1 * (1real + uu()) + eta() * s, nu == nm1 * uu();
    assert(nu * uu() <= 0.1real) by(nonlinear_arith) requires 0real <= nu <= 0.1real, uu() == 0.0000001real;
    assert((s * eta()) * (1real + uu()) <= 0.002real) by(nonlinear_arith)
        requires 0real <= s * eta() <= 0.001real, uu() == 0.0000001real;
    assert(s * eta() >= 0real) by(nonlinear_arith) requires s > 0real, eta() > 0real;
    assert(fl_add(p, 0real) == p);
    assert(p < n as real);
}
