// ---- specs/spline.rs : shim of CubicSplineStrategy and the vocabulary of the spline evaluation contract
pub struct CubicSplineStrategy { pub a: ArrD, pub b: ArrD, pub extrapolate: Extrapolate }

pub open spec fn one_T() -> T { mk(f64_real(1.0f64), 0, Set::empty()) }
/// the periodic argument wrap, as a term
pub open spec fn wrap_term(x: T, x0: T, xn: T) -> T { t_add(t_rem_euclid(t_sub(x, x0), t_sub(xn, x0)), x0) }
pub open spec fn spline_query(st: &CubicSplineStrategy, it: &Interp1D<CubicSplineStrategy>, x: T) -> T {
    if st.extrapolate is Periodic && !in_closed_range(it.x@, x) { wrap_term(x, it.x@[0], it.x@[it.x@.len() - 1]) } else { x }
}
pub open spec fn deps7(a: T, b: T, c: T, d: T, e: T, f: T, g: T) -> Set<Cell> {
    a.deps@.union(b.deps@).union(c.deps@).union(d.deps@).union(e.deps@).union(f.deps@).union(g.deps@)
}
/// value-level contract of one spline lane: the symmetric Hermite polynomial of the piece at xq
pub open spec fn spl_ok(r: T, xl: T, xr: T, yl: T, yr: T, a: T, b: T, xq: T) -> bool {
    &&& xl@ != xr@ ==> r@ == herm(xl@, xr@, yl@, yr@, a@, b@, xq@)
    &&& r.deps@.subset_of(deps7(xl, xr, yl, yr, a, b, xq))
    &&& (is_fin(xl) && is_fin(xr) && is_fin(yl) && is_fin(yr) && is_fin(a) && is_fin(b) && is_fin(xq) && xl@ != xr@) ==> is_fin(r)
}
pub open spec fn spline_ok(r: T, st: &CubicSplineStrategy, it: &Interp1D<CubicSplineStrategy>, i: int, xq: T, j: int) -> bool {
    spl_ok(r, it.x@[i], it.x@[i + 1], it.data.rows@[i][j], it.data.rows@[i + 1][j], st.a.rows@[i][j], st.b.rows@[i][j], xq)
}
pub open spec fn coef_wf(c: &ArrD, it: &Interp1D<CubicSplineStrategy>) -> bool {
    &&& c.rows@.len() == it.x@.len() - 1
    &&& forall|i: int| 0 <= i < c.rows@.len() ==> (#[trigger] c.rows@[i]).len() == it.data.rows@[0].len()
}
