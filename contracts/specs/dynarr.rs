// ---- specs/dynarr.rs : dynamic-rank views (IxDyn) for the per-lane dispatch CubicSpline::solve_for_k_individual
// An ArrD keeps `rows` (axis 0 x flattened trailing axes, C order) and `dims` (the full shape). The contracts below are the
// ASSUMED ndarray facts about `axis_iter(Axis(last))`, `ndim`, `len_of`, `first`, `into_dyn` in that model; the scenario `shim` of engine S
// compares each of them with the real ndarray (bounded validation, reported as bounded).

/// number of flattened lanes of a shape: product of the trailing extents
pub open spec fn ntrail(dims: Seq<usize>) -> int decreases dims.len() {
    if dims.len() <= 1 { 1 } else { ntrail(dims.drop_last()) * (dims.last() as int) }
}
/// rows/dims are consistent: dims[0] rows, every row has ntrail(dims) lanes
pub open spec fn dyn_wf(rows: Seq<Seq<T>>, dims: Seq<usize>) -> bool {
    dims.len() >= 1 && dims[0] == rows.len() && rect(rows, ntrail(dims))
}
/// `sub` is the i-th item of `parent.axis_iter(Axis(last))`: lane s of the item is lane s*d + i of the parent (d = last extent),
/// stated over the parent's lanes j with j % d == i
pub open spec fn is_axis_item(sub: Seq<Seq<T>>, parent: Seq<Seq<T>>, nlanes: int, d: int, i: int) -> bool {
    &&& sub.len() == parent.len()
    &&& forall|r: int, j: int| 0 <= r < parent.len() && 0 <= j < nlanes && j % d == i ==> sub[r][j / d] == #[trigger] parent[r][j]
}
/// column j of a rows x lanes array
pub open spec fn colv(rows: Seq<Seq<T>>, j: int) -> Seq<T> { Seq::new(rows.len(), |r: int| rows[r][j]) }
/// a vector as a rows x 1 array
pub open spec fn as1(c: Seq<T>) -> Seq<Seq<T>> { Seq::new(c.len(), |r: int| seq![c[r]]) }

pub struct ArrB { pub rows: Ghost<Seq<Seq<RowBoundary<T>>>>, pub dims: Ghost<Seq<usize>> }
pub enum FoldWhile<X> { Continue(X), Done(X) }
pub struct OptRefRB { pub o: Ghost<Option<RowBoundary<T>>> }
impl OptRefRB {
    /// Option<&RowBoundary<T>>::cloned(): the derived Clone of RowBoundary returns an equal value
    #[verifier::external_body]
    pub fn cloned(self) -> (r: Option<RowBoundary<T>>) ensures r == self.o@ { unimplemented!() }
}
impl RowBoundary<T> {
    /// `.into()` is std's blanket `impl<T, U: From<T>> Into<U> for T`, i.e. `U::from(self)`
    pub fn into(self) -> (r: InternalBoundary<T>) ensures r == ib_of_row(self) { InternalBoundary::from_row(self) }
}
/// what `impl From<RowBoundary<T>> for InternalBoundary<T>` returns (the contract of unit InternalBoundary::from, verified in program `boundary`)
pub open spec fn ib_of_row(val: RowBoundary<T>) -> InternalBoundary<T> {
    match val { RowBoundary::NotAKnot => InternalBoundary::NotAKnot, RowBoundary::Natural => InternalBoundary::Natural, RowBoundary::Clamped => InternalBoundary::Clamped,
                RowBoundary::Mixed { left, right } => InternalBoundary::Mixed { left, right } }
}

impl ArrD {
    #[verifier::external_body]
    pub fn len_of(&self, ax: Axis) -> (r: usize) requires ax.0 < self.dims@.len() ensures r == self.dims@[ax.0 as int] { unimplemented!() }
    /// item i of `self.axis_iter(Axis(last))`
    #[verifier::external_body]
    pub fn axis_item(&self, ax: Axis, i: usize) -> (r: ArrD)
        requires dyn_wf(self.rows@, self.dims@), self.dims@.len() >= 2, ax.0 == self.dims@.len() - 1, i < self.dims@.last()
        ensures r.dims@ == self.dims@.drop_last(), dyn_wf(r.rows@, r.dims@),
                is_axis_item(r.rows@, self.rows@, ntrail(self.dims@), self.dims@.last() as int, i as int)
    { unimplemented!() }
    /// item i of `self.axis_iter_mut(Axis(last))`: writes through the item land in the lanes j with j % d == i and nowhere else
    #[verifier::external_body]
    pub fn axis_item_mut(&mut self, ax: Axis, i: usize) -> (r: &mut ArrD)
        requires dyn_wf(old(self).rows@, old(self).dims@), old(self).dims@.len() >= 2, ax.0 == old(self).dims@.len() - 1, i < old(self).dims@.last()
        ensures r.dims@ == old(self).dims@.drop_last(), dyn_wf(r.rows@, r.dims@),
                is_axis_item(r.rows@, old(self).rows@, ntrail(old(self).dims@), old(self).dims@.last() as int, i as int),
                final(self).dims@ == old(self).dims@,
                (final(r).rows@.len() == r.rows@.len() && rect(final(r).rows@, ntrail(r.dims@))) ==> {
                    &&& final(self).rows@.len() == old(self).rows@.len() && rect(final(self).rows@, ntrail(old(self).dims@))
                    &&& forall|row: int, j: int| 0 <= row < old(self).rows@.len() && 0 <= j < ntrail(old(self).dims@) ==>
                            #[trigger] final(self).rows@[row][j] == (if j % (old(self).dims@.last() as int) == i { final(r).rows@[row][j / (old(self).dims@.last() as int)] } else { old(self).rows@[row][j] })
                }
    { unimplemented!() }
    /// `a.into_dyn()` / `a.view().into_dyn()`: same elements, same shape; the shape is consistent with the lanes
    #[verifier::external_body]
    pub fn into_dyn(self) -> (r: ArrD) ensures r.rows@ == self.rows@, r.dims@ == self.dims@, dyn_wf(r.rows@, r.dims@) { unimplemented!() }
}
impl ArrB {
    #[verifier::external_body]
    pub fn axis_item(&self, ax: Axis, i: usize) -> (r: ArrB)
        requires self.dims@.len() >= 2, ax.0 == self.dims@.len() - 1, i < self.dims@.last(), self.dims@[0] == self.rows@.len(),
                 forall|q: int| 0 <= q < self.rows@.len() ==> (#[trigger] self.rows@[q]).len() == ntrail(self.dims@)
        ensures r.dims@ == self.dims@.drop_last(), r.rows@.len() == self.rows@.len(),
                forall|q: int| 0 <= q < r.rows@.len() ==> (#[trigger] r.rows@[q]).len() == ntrail(r.dims@),
                forall|q: int, j: int| 0 <= q < self.rows@.len() && 0 <= j < ntrail(self.dims@) && j % (self.dims@.last() as int) == i ==>
                    r.rows@[q][j / (self.dims@.last() as int)] == #[trigger] self.rows@[q][j]
    { unimplemented!() }
    /// `a.first()`: Some(element at index 0..0) unless the array is empty
    #[verifier::external_body]
    pub fn first(&self) -> (r: OptRefRB)
        ensures (self.rows@.len() > 0 && self.rows@[0].len() > 0) ==> r.o@ == Some(self.rows@[0][0]),
                !(self.rows@.len() > 0 && self.rows@[0].len() > 0) ==> r.o@ is None
    { unimplemented!() }
}
/// ndarray's Zip panics unless all producers have the same extent: here a proof obligation
#[verifier::external_body]
pub fn zipfold_check3(a: &ArrD, axa: Axis, b: &ArrD, axb: Axis, c: &ArrB, axc: Axis)
    requires axa.0 < a.dims@.len(), axb.0 < b.dims@.len(), axc.0 < c.dims@.len(),
             a.dims@[axa.0 as int] == b.dims@[axb.0 as int], a.dims@[axa.0 as int] == c.dims@[axc.0 as int]
{ unimplemented!() }

// ---- the per-lane statement
/// lane with slopes kc over data column yc solved under the row condition rb: exactly what solve_for_k returns for that lane ALONE
pub open spec fn lane_ok(kc: Seq<T>, x: Seq<T>, yc: Seq<T>, rb: RowBoundary<T>) -> bool {
    let b = ib_of_row(rb);
    let n = yc.len() as int;
    &&& (solve_covered(b, n) && solve_inputs_ok(x, as1(yc), b)) ==>
            forall|i: int| 0 <= i < n ==> (#[trigger] kc[i])@ == ksol(sys_up(x, ib_left(b), n), sys_mid(x, ib_left(b), ib_right(b), n), sys_low(x, ib_right(b), n),
                                                                  sys_rhs(x, as1(yc), ib_left(b), ib_right(b), n, 1), 0, n, i) && is_fin(kc[i])
    // three points, not-a-knot on both ends (spelled either way): the parabola through them (contract of solve_for_k[parabola])
    &&& (is_parabola_arm(b, n) && axis_incr(x) && all_fin2(as1(yc))) ==>
            forall|i: int| 0 <= i < 3 ==> (#[trigger] kc[i])@ == kpar(x, as1(yc), 1, 0, i) && is_fin(kc[i])
}
/// a per-lane condition is never Periodic: every lane is covered by the sided contract or is the 3-point parabola
pub proof fn lemma_row_condition_covered(rb: RowBoundary<T>, n: int)
    ensures solve_covered(ib_of_row(rb), n) || is_parabola_arm(ib_of_row(rb), n)
{
}
pub open spec fn bnd_wf(b: ArrB, dims: Seq<usize>) -> bool {
    b.dims@.len() == dims.len() && b.dims@[0] == 1 && b.rows@.len() == 1 && (forall|t: int| 1 <= t < dims.len() ==> b.dims@[t] == dims[t])
    && (forall|q: int| 0 <= q < b.rows@.len() ==> (#[trigger] b.rows@[q]).len() == ntrail(b.dims@))
}
pub proof fn lemma_ntrail_same(a: Seq<usize>, b: Seq<usize>)
    requires a.len() == b.len(), a.len() >= 1, forall|t: int| 1 <= t < a.len() ==> a[t] == b[t]
    ensures ntrail(a) == ntrail(b)
    decreases a.len()
{
    if a.len() > 1 {
        lemma_ntrail_same(a.drop_last(), b.drop_last());
    }
}
pub proof fn lemma_div_lt(j: int, a: int, d: int)
    requires 0 <= j < a * d, d > 0
    ensures 0 <= j / d < a, 0 <= j % d < d
{
    assert(0 <= j / d < a && 0 <= j % d < d) by (nonlinear_arith) requires 0 <= j < a * d, d > 0;
}
pub proof fn lemma_lane_index(s: int, sl: int, d: int, i: int)
    requires 0 <= s < sl, 0 <= i < d
    ensures 0 <= s * d + i < sl * d, (s * d + i) / d == s, (s * d + i) % d == i
{
    vstd::arithmetic::div_mod::lemma_fundamental_div_mod_converse(s * d + i, d, s, i);
    assert(s * d + i < sl * d) by (nonlinear_arith) requires 0 <= s < sl, 0 <= i < d;
    assert(0 <= s * d + i) by (nonlinear_arith) requires 0 <= s, 0 <= i, 0 < d;
}
