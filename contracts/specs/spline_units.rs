// ---- specs/spline_units.rs : C15 for the spline construction, every n — theorems over the contract of solve_for_k:
//      the slopes are linear in (data, end values) and scale by 1/c under the change of axis units x -> c*x + s
/// same kind of end condition (the matrix of the system depends on the kind only)
pub open spec fn same_tags(a: SingleBoundary<T>, b: SingleBoundary<T>, c: SingleBoundary<T>) -> bool { eff_tag(a) == eff_tag(b) && eff_tag(b) == eff_tag(c) }

pub proof fn lemma_same_matrix(x: Seq<T>, bl1: SingleBoundary<T>, br1: SingleBoundary<T>, bl2: SingleBoundary<T>, br2: SingleBoundary<T>, n: int)
    requires eff_tag(bl1) == eff_tag(bl2), eff_tag(br1) == eff_tag(br2), n >= 0
    ensures sys_up(x, bl1, n) =~= sys_up(x, bl2, n), sys_mid(x, bl1, br1, n) =~= sys_mid(x, bl2, br2, n), sys_low(x, br1, n) =~= sys_low(x, br2, n)
{
}

/// C15 (linearity in the data): data = al*data1 + be*data2 lane-wise, end values combined the same way  ==>  slopes combine the same way
pub proof fn thm_C15_slopes_linear_in_data(x: Seq<T>, y1: Seq<Seq<T>>, y2: Seq<Seq<T>>, y3: Seq<Seq<T>>,
        bl1: SingleBoundary<T>, br1: SingleBoundary<T>, bl2: SingleBoundary<T>, br2: SingleBoundary<T>, bl3: SingleBoundary<T>, br3: SingleBoundary<T>,
        n: int, nl: int, j: int, al: real, be: real, i: int)
    requires n >= 3, x.len() == n, y1.len() == n, y2.len() == n, y3.len() == n, axis_incr(x), 0 <= j < nl, 0 <= i < n,
             same_tags(bl1, bl2, bl3), same_tags(br1, br2, br3), !(n == 3 && eff_tag(bl1) == 0 && eff_tag(br1) == 0),
             eff_val(bl3) == al * eff_val(bl1) + be * eff_val(bl2), eff_val(br3) == al * eff_val(br1) + be * eff_val(br2),
             forall|t: int| 0 <= t < n ==> (#[trigger] y3[t])[j]@ == al * y1[t][j]@ + be * y2[t][j]@
    ensures ksys(x, y3, bl3, br3, n, nl, j, i) == al * ksys(x, y1, bl1, br1, n, nl, j, i) + be * ksys(x, y2, bl2, br2, n, nl, j, i)
{
    lemma_same_matrix(x, bl1, br1, bl3, br3, n);
    lemma_same_matrix(x, bl2, br2, bl3, br3, n);
    let up = sys_up(x, bl3, n); let mid = sys_mid(x, bl3, br3, n); let low = sys_low(x, br3, n);
    let r1 = sys_rhs(x, y1, bl1, br1, n, nl); let r2 = sys_rhs(x, y2, bl2, br2, n, nl); let r3 = sys_rhs(x, y3, bl3, br3, n, nl);
    thm_pivots_nonzero(x, bl3, br3, n);
    let kk = Seq::new(n as nat, |t: int| al * ksol(up, mid, low, r1, j, n, t) + be * ksol(up, mid, low, r2, j, n, t));
    assert(hx(x, 0) > 0real && hx(x, 1) > 0real && hx(x, n - 2) > 0real && hx(x, n - 3) > 0real);
    assert(y3[0][j]@ == al * y1[0][j]@ + be * y2[0][j]@ && y3[1][j]@ == al * y1[1][j]@ + be * y2[1][j]@ && y3[2][j]@ == al * y1[2][j]@ + be * y2[2][j]@);
    assert(y3[n - 1][j]@ == al * y1[n - 1][j]@ + be * y2[n - 1][j]@ && y3[n - 2][j]@ == al * y1[n - 2][j]@ + be * y2[n - 2][j]@ && y3[n - 3][j]@ == al * y1[n - 3][j]@ + be * y2[n - 3][j]@);
    assert forall|t: int| 0 <= t < n implies #[trigger] row_holds(up, mid, low, r3, j, n, kk, t) by {
        thm_thomas_solves(up, mid, low, r1, j, n, t);
        thm_thomas_solves(up, mid, low, r2, j, n, t);
        let a0 = ksol(up, mid, low, r1, j, n, t - 1); let a1 = ksol(up, mid, low, r1, j, n, t); let a2 = ksol(up, mid, low, r1, j, n, t + 1);
        let b0 = ksol(up, mid, low, r2, j, n, t - 1); let b1 = ksol(up, mid, low, r2, j, n, t); let b2 = ksol(up, mid, low, r2, j, n, t + 1);
        assert(kk[t] == al * a1 + be * b1);
        if t > 0 { assert(kk[t - 1] == al * a0 + be * b0); }
        if t < n - 1 { assert(kk[t + 1] == al * a2 + be * b2); }
        let lo = if t > 0 { low[t] } else { 0real };
        let u = if t < n - 1 { up[t] } else { 0real };
        // the two solved rows, with the absent neighbours multiplied by 0
        assert(lo * a0 + mid[t] * a1 + u * a2 == r1[t][j]);
        assert(lo * b0 + mid[t] * b1 + u * b2 == r2[t][j]);
        L_row_lincomb(lo, mid[t], u, al, be, a0, a1, a2, b0, b1, b2, r1[t][j], r2[t][j]);
        // the right-hand side of the combined system is the combination of the right-hand sides
        assert(r1[t][j] == rhs_entry(x, y1, bl1, br1, n, t, j) && r2[t][j] == rhs_entry(x, y2, bl2, br2, n, t, j) && r3[t][j] == rhs_entry(x, y3, bl3, br3, n, t, j));
        if t == 0 {
            let h0 = hx(x, 0); let h1 = hx(x, 1); let d = x[2]@ - x[0]@;
            let p0 = y1[1][j]@ - y1[0][j]@; let p1 = y1[2][j]@ - y1[1][j]@; let q0 = y2[1][j]@ - y2[0][j]@; let q1 = y2[2][j]@ - y2[1][j]@;
            assert(y3[1][j]@ - y3[0][j]@ == al * p0 + be * q0) by(nonlinear_arith)
                requires y3[0][j]@ == al * y1[0][j]@ + be * y2[0][j]@, y3[1][j]@ == al * y1[1][j]@ + be * y2[1][j]@, p0 == y1[1][j]@ - y1[0][j]@, q0 == y2[1][j]@ - y2[0][j]@;
            assert(y3[2][j]@ - y3[1][j]@ == al * p1 + be * q1) by(nonlinear_arith)
                requires y3[1][j]@ == al * y1[1][j]@ + be * y2[1][j]@, y3[2][j]@ == al * y1[2][j]@ + be * y2[2][j]@, p1 == y1[2][j]@ - y1[1][j]@, q1 == y2[2][j]@ - y2[1][j]@;
            if eff_tag(bl3) == 0 { L_rhs_nak_left_lincomb(h0, h1, d, al, be, p0, p1, q0, q1); }
            else if eff_tag(bl3) == 2 { L_rhs_second_left_lincomb(h0, al, be, p0, q0, eff_val(bl1), eff_val(bl2)); }
            assert(r3[t][j] == al * r1[t][j] + be * r2[t][j]);
        } else if t == n - 1 {
            let h0 = hx(x, n - 3); let h1 = hx(x, n - 2); let d = x[n - 1]@ - x[n - 3]@;
            let p0 = y1[n - 2][j]@ - y1[n - 3][j]@; let p1 = y1[n - 1][j]@ - y1[n - 2][j]@; let q0 = y2[n - 2][j]@ - y2[n - 3][j]@; let q1 = y2[n - 1][j]@ - y2[n - 2][j]@;
            assert(y3[n - 2][j]@ - y3[n - 3][j]@ == al * p0 + be * q0) by(nonlinear_arith)
                requires y3[n - 3][j]@ == al * y1[n - 3][j]@ + be * y2[n - 3][j]@, y3[n - 2][j]@ == al * y1[n - 2][j]@ + be * y2[n - 2][j]@, p0 == y1[n - 2][j]@ - y1[n - 3][j]@, q0 == y2[n - 2][j]@ - y2[n - 3][j]@;
            assert(y3[n - 1][j]@ - y3[n - 2][j]@ == al * p1 + be * q1) by(nonlinear_arith)
                requires y3[n - 2][j]@ == al * y1[n - 2][j]@ + be * y2[n - 2][j]@, y3[n - 1][j]@ == al * y1[n - 1][j]@ + be * y2[n - 1][j]@, p1 == y1[n - 1][j]@ - y1[n - 2][j]@, q1 == y2[n - 1][j]@ - y2[n - 2][j]@;
            if eff_tag(br3) == 0 { L_rhs_nak_right_lincomb(h0, h1, d, al, be, p0, p1, q0, q1); }
            else if eff_tag(br3) == 2 { L_rhs_second_right_lincomb(h1, al, be, p1, q1, eff_val(br1), eff_val(br2)); }
            assert(r3[t][j] == al * r1[t][j] + be * r2[t][j]);
        } else {
            assert(hx(x, t) > 0real && hx(x, t - 1) > 0real);
            let h0 = hx(x, t - 1); let h1 = hx(x, t);
            assert(y3[t][j]@ == al * y1[t][j]@ + be * y2[t][j]@ && y3[t - 1][j]@ == al * y1[t - 1][j]@ + be * y2[t - 1][j]@ && y3[t + 1][j]@ == al * y1[t + 1][j]@ + be * y2[t + 1][j]@);
            let p0 = y1[t][j]@ - y1[t - 1][j]@; let p1 = y1[t + 1][j]@ - y1[t][j]@; let q0 = y2[t][j]@ - y2[t - 1][j]@; let q1 = y2[t + 1][j]@ - y2[t][j]@;
            assert(y3[t][j]@ - y3[t - 1][j]@ == al * p0 + be * q0) by(nonlinear_arith)
                requires y3[t - 1][j]@ == al * y1[t - 1][j]@ + be * y2[t - 1][j]@, y3[t][j]@ == al * y1[t][j]@ + be * y2[t][j]@, p0 == y1[t][j]@ - y1[t - 1][j]@, q0 == y2[t][j]@ - y2[t - 1][j]@;
            assert(y3[t + 1][j]@ - y3[t][j]@ == al * p1 + be * q1) by(nonlinear_arith)
                requires y3[t][j]@ == al * y1[t][j]@ + be * y2[t][j]@, y3[t + 1][j]@ == al * y1[t + 1][j]@ + be * y2[t + 1][j]@, p1 == y1[t + 1][j]@ - y1[t][j]@, q1 == y2[t + 1][j]@ - y2[t][j]@;
            L_rhs_interior_lincomb(h0, h1, al, be, p0, p1, q0, q1);
            assert(r3[t][j] == al * r1[t][j] + be * r2[t][j]);
        }
    }
    thm_thomas_unique(up, mid, low, r3, j, n, kk, i);
}

/// conversion of an end condition to the new axis units: first derivatives scale by 1/c, second derivatives by 1/c^2
pub open spec fn end_converted(b: SingleBoundary<T>, b2: SingleBoundary<T>, c: real) -> bool {
    eff_tag(b) == eff_tag(b2) && (eff_tag(b) == 1 ==> eff_val(b2) == eff_val(b) / c) && (eff_tag(b) == 2 ==> eff_val(b2) == eff_val(b) / (c * c))
}
pub proof fn lemma_scaled_widths(x: Seq<T>, x2: Seq<T>, c: real, s: real, n: int)
    requires x.len() == n, x2.len() == n, c > 0real, axis_incr(x), all_fin1(x2), forall|t: int| 0 <= t < n ==> (#[trigger] x2[t])@ == c * x[t]@ + s
    ensures forall|t: int| 0 <= t < n - 1 ==> #[trigger] hx(x2, t) == c * hx(x, t), axis_incr(x2),
            n >= 3 ==> (x2[2]@ - x2[0]@ == c * (x[2]@ - x[0]@) && x2[n - 1]@ - x2[n - 3]@ == c * (x[n - 1]@ - x[n - 3]@))
{
    assert forall|t: int| 0 <= t < n - 1 implies #[trigger] hx(x2, t) == c * hx(x, t) && hx(x2, t) > 0real by {
        assert(x2[t]@ == c * x[t]@ + s && x2[t + 1]@ == c * x[t + 1]@ + s);
        L_width_scales(c, s, x[t]@, x[t + 1]@);
        assert(hx(x, t) > 0real);
        assert(c * hx(x, t) > 0real) by(nonlinear_arith) requires c > 0real, hx(x, t) > 0real;
    }
    if n >= 3 {
        assert(x2[0]@ == c * x[0]@ + s && x2[2]@ == c * x[2]@ + s && x2[n - 1]@ == c * x[n - 1]@ + s && x2[n - 3]@ == c * x[n - 3]@ + s);
        L_width_scales(c, s, x[0]@, x[2]@);
        L_width_scales(c, s, x[n - 3]@, x[n - 1]@);
    }
}
/// C15 (axis units): x -> c*x + s with c > 0 and converted end values divides every slope by c
pub proof fn thm_C15_slopes_axis_units(x: Seq<T>, x2: Seq<T>, y: Seq<Seq<T>>, bl: SingleBoundary<T>, br: SingleBoundary<T>, bl2: SingleBoundary<T>, br2: SingleBoundary<T>,
        n: int, nl: int, j: int, c: real, s: real, i: int)
    requires n >= 3, x.len() == n, x2.len() == n, y.len() == n, axis_incr(x), all_fin1(x2), c > 0real, 0 <= j < nl, 0 <= i < n,
             forall|t: int| 0 <= t < n ==> (#[trigger] x2[t])@ == c * x[t]@ + s,
             end_converted(bl, bl2, c), end_converted(br, br2, c), !(n == 3 && eff_tag(bl) == 0 && eff_tag(br) == 0)
    ensures ksys(x2, y, bl2, br2, n, nl, j, i) == ksys(x, y, bl, br, n, nl, j, i) / c
{
    lemma_scaled_widths(x, x2, c, s, n);
    let up = sys_up(x, bl, n); let mid = sys_mid(x, bl, br, n); let low = sys_low(x, br, n); let r = sys_rhs(x, y, bl, br, n, nl);
    let up2 = sys_up(x2, bl2, n); let mid2 = sys_mid(x2, bl2, br2, n); let low2 = sys_low(x2, br2, n); let r2 = sys_rhs(x2, y, bl2, br2, n, nl);
    thm_pivots_nonzero(x, bl, br, n);
    thm_pivots_nonzero(x2, bl2, br2, n);
    let kk = Seq::new(n as nat, |t: int| ksol(up, mid, low, r, j, n, t) / c);
    assert(hx(x, 0) > 0real && hx(x, 1) > 0real && hx(x, n - 2) > 0real && hx(x, n - 3) > 0real);
    assert(hx(x2, 0) == c * hx(x, 0) && hx(x2, 1) == c * hx(x, 1) && hx(x2, n - 2) == c * hx(x, n - 2) && hx(x2, n - 3) == c * hx(x, n - 3));
    assert forall|t: int| 0 <= t < n implies #[trigger] row_holds(up2, mid2, low2, r2, j, n, kk, t) by {
        thm_thomas_solves(up, mid, low, r, j, n, t);
        let k0 = ksol(up, mid, low, r, j, n, t - 1); let k1 = ksol(up, mid, low, r, j, n, t); let k2 = ksol(up, mid, low, r, j, n, t + 1);
        assert(kk[t] == k1 / c);
        if t > 0 { assert(kk[t - 1] == k0 / c); }
        if t < n - 1 { assert(kk[t + 1] == k2 / c); }
        assert(r[t][j] == rhs_entry(x, y, bl, br, n, t, j) && r2[t][j] == rhs_entry(x2, y, bl2, br2, n, t, j));
        assert(up[t] == up_entry(x, bl, n, t) && mid[t] == mid_entry(x, bl, br, n, t) && low[t] == low_entry(x, br, n, t));
        assert(up2[t] == up_entry(x2, bl2, n, t) && mid2[t] == mid_entry(x2, bl2, br2, n, t) && low2[t] == low_entry(x2, br2, n, t));
        if t == 0 {
            let h0 = hx(x, 0); let h1 = hx(x, 1); let d = x[2]@ - x[0]@;
            let p0 = y[1][j]@ - y[0][j]@; let p1 = y[2][j]@ - y[1][j]@;
            assert(d > 0real);
            if eff_tag(bl) == 1 {
                assert(up[t] * k2 == 0real && up2[t] * kk[t + 1] == 0real && mid[t] * k1 == k1 && mid2[t] * kk[t] == kk[t]) by(nonlinear_arith)
                    requires up[t] == 0real, up2[t] == 0real, mid[t] == 1real, mid2[t] == 1real;
                assert(k1 == eff_val(bl));
                L_first_row_axis_scaled(c, k1, eff_val(bl));
            } else {
                if eff_tag(bl) == 0 { L_rhs_nak_left_axis_scaled(c, h0, h1, d, p0, p1); }
                else { L_rhs_second_left_axis_scaled(c, h0, p0, eff_val(bl)); }
                assert(r2[t][j] == r[t][j]);
                assert(mid2[t] == c * mid[t] && up2[t] == c * up[t]) by(nonlinear_arith)
                    requires mid2[t] == (if eff_tag(bl) == 0 { c * h1 } else { 2real * (c * h0) }), mid[t] == (if eff_tag(bl) == 0 { h1 } else { 2real * h0 }),
                             up2[t] == (if eff_tag(bl) == 0 { c * d } else { c * h0 }), up[t] == (if eff_tag(bl) == 0 { d } else { h0 });
                L_row_axis_scaled(c, 0real, mid[t], up[t], 0real, k1, k2, r[t][j]);
                assert((c * 0real) * (0real / c) == 0real) by(nonlinear_arith) requires c > 0real;
            }
        } else if t == n - 1 {
            let h0 = hx(x, n - 3); let h1 = hx(x, n - 2); let d = x[n - 1]@ - x[n - 3]@;
            let p0 = y[n - 2][j]@ - y[n - 3][j]@; let p1 = y[n - 1][j]@ - y[n - 2][j]@;
            assert(d > 0real);
            if eff_tag(br) == 1 {
                assert(low[t] * k0 == 0real && low2[t] * kk[t - 1] == 0real && mid[t] * k1 == k1 && mid2[t] * kk[t] == kk[t]) by(nonlinear_arith)
                    requires low[t] == 0real, low2[t] == 0real, mid[t] == 1real, mid2[t] == 1real;
                assert(k1 == eff_val(br));
                L_first_row_axis_scaled(c, k1, eff_val(br));
            } else {
                if eff_tag(br) == 0 { L_rhs_nak_right_axis_scaled(c, h0, h1, d, p0, p1); }
                else { L_rhs_second_right_axis_scaled(c, h1, p1, eff_val(br)); }
                assert(r2[t][j] == r[t][j]);
                assert(mid2[t] == c * mid[t] && low2[t] == c * low[t]) by(nonlinear_arith)
                    requires mid2[t] == (if eff_tag(br) == 0 { c * h0 } else { 2real * (c * h1) }), mid[t] == (if eff_tag(br) == 0 { h0 } else { 2real * h1 }),
                             low2[t] == (if eff_tag(br) == 0 { c * d } else { c * h1 }), low[t] == (if eff_tag(br) == 0 { d } else { h1 });
                L_row_axis_scaled(c, low[t], mid[t], 0real, k0, k1, 0real, r[t][j]);
                assert((c * 0real) * (0real / c) == 0real) by(nonlinear_arith) requires c > 0real;
            }
        } else {
            assert(hx(x, t) > 0real && hx(x, t - 1) > 0real);
            assert(hx(x2, t) == c * hx(x, t) && hx(x2, t - 1) == c * hx(x, t - 1));
            let h0 = hx(x, t - 1); let h1 = hx(x, t);
            L_rhs_interior_axis_scaled(c, h0, h1, y[t][j]@ - y[t - 1][j]@, y[t + 1][j]@ - y[t][j]@);
            assert(r2[t][j] == r[t][j]);
            assert(mid2[t] == c * mid[t]) by(nonlinear_arith) requires mid2[t] == 2real * (c * h1 + c * h0), mid[t] == 2real * (h1 + h0);
            L_row_axis_scaled(c, low[t], mid[t], up[t], k0, k1, k2, r[t][j]);
        }
    }
    thm_thomas_unique(up2, mid2, low2, r2, j, n, kk, i);
}

/// ... and therefore leaves the coefficients a, b of every piece unchanged (the evaluation depends on the axis only through
/// (q - x_l) / (x_r - x_l): lemma herm_axis_units), i.e. the interpolant does not depend on the units of the axis
pub proof fn thm_C15_coefficients_axis_units(x: Seq<T>, x2: Seq<T>, y: Seq<Seq<T>>, bl: SingleBoundary<T>, br: SingleBoundary<T>, bl2: SingleBoundary<T>, br2: SingleBoundary<T>,
        n: int, nl: int, j: int, c: real, s: real, i: int)
    requires n >= 3, x.len() == n, x2.len() == n, y.len() == n, axis_incr(x), all_fin1(x2), c > 0real, 0 <= j < nl, 0 <= i < n - 1,
             forall|t: int| 0 <= t < n ==> (#[trigger] x2[t])@ == c * x[t]@ + s,
             end_converted(bl, bl2, c), end_converted(br, br2, c), !(n == 3 && eff_tag(bl) == 0 && eff_tag(br) == 0)
    ensures
        aK(x2[i]@, x2[i + 1]@, y[i][j]@, y[i + 1][j]@, ksys(x2, y, bl2, br2, n, nl, j, i)) == aK(x[i]@, x[i + 1]@, y[i][j]@, y[i + 1][j]@, ksys(x, y, bl, br, n, nl, j, i)),
        bK(x2[i]@, x2[i + 1]@, y[i][j]@, y[i + 1][j]@, ksys(x2, y, bl2, br2, n, nl, j, i + 1)) == bK(x[i]@, x[i + 1]@, y[i][j]@, y[i + 1][j]@, ksys(x, y, bl, br, n, nl, j, i + 1)),
{
    lemma_scaled_widths(x, x2, c, s, n);
    thm_C15_slopes_axis_units(x, x2, y, bl, br, bl2, br2, n, nl, j, c, s, i);
    thm_C15_slopes_axis_units(x, x2, y, bl, br, bl2, br2, n, nl, j, c, s, i + 1);
    assert(hx(x2, i) == c * hx(x, i));
    let dy = y[i + 1][j]@ - y[i][j]@;
    L_coef_axis_scaled(c, ksys(x, y, bl, br, n, nl, j, i), hx(x, i), dy);
    L_coef_axis_scaled(c, ksys(x, y, bl, br, n, nl, j, i + 1), hx(x, i), dy);
}
