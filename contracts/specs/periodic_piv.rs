// ---- specs/periodic_piv.rs : the condensed cyclic system of the periodic spline has no zero pivot (diagonal dominance)
pub open spec fn ppv(x: Seq<T>, n: int, i: int) -> real { piv(per_up(x, n), per_mid(x, n), per_low(x, n), i) }
pub proof fn lemma_per_piv_bound(x: Seq<T>, n: int, i: int)
    requires n >= 4, x.len() == n, axis_incr(x), 0 <= i <= n - 3
    ensures ppv(x, n, i) > per_up(x, n)[i], per_up(x, n)[i] > 0real
    decreases i
{
    assert(hx(x, 0) > 0real && hx(x, n - 2) > 0real);
    if i == 0 {
    } else {
        lemma_per_piv_bound(x, n, i - 1);
        assert(hx(x, i) > 0real && hx(x, i - 1) > 0real);
        let pp = ppv(x, n, i - 1);
        let u = per_up(x, n)[i - 1];
        let low = per_low(x, n)[i];
        let mid = per_mid(x, n)[i];
        assert(low == hx(x, i) && mid == 2real * (hx(x, i) + hx(x, i - 1)) && per_up(x, n)[i] == hx(x, i - 1));
        assert(ppv(x, n, i) == mid - (low / pp) * u);
        L_piv_step_lower(low, mid, pp, u);
    }
}
pub proof fn thm_per_pivots_nonzero(x: Seq<T>, n: int)
    requires n >= 4, x.len() == n, axis_incr(x)
    ensures pivots_ok(per_up(x, n), per_mid(x, n), per_low(x, n), n - 2)
{
    assert forall|i: int| 0 <= i < n - 2 implies #[trigger] piv(per_up(x, n), per_mid(x, n), per_low(x, n), i) != 0real by {
        lemma_per_piv_bound(x, n, i);
    }
}

// ---- the denominator of the eliminated slope is positive (maximum principle: |k2_i| <= 1/2 for the second auxiliary solve)
pub open spec fn sq(a: real) -> real { a * a }
/// index of an entry of largest absolute value among the first n
pub open spec fn amax(s: Seq<real>, n: int) -> int decreases n {
    if n <= 1 { 0 } else { let m = amax(s, n - 1); if sq(s[n - 1]) > sq(s[m]) { n - 1 } else { m } }
}
pub proof fn lemma_amax(s: Seq<real>, n: int, i: int)
    requires n >= 1, 0 <= i < n
    ensures 0 <= amax(s, n) < n, sq(s[i]) <= sq(s[amax(s, n)])
    decreases n
{
    if n > 1 {
        lemma_amax(s, n - 1, 0);
        if i < n - 1 { lemma_amax(s, n - 1, i); }
    }
}
pub open spec fn k2seq(x: Seq<T>, n: int, nl: int, j: int) -> Seq<real> { Seq::new((n - 2) as nat, |i: int| per_k2(x, n, nl, j, i)) }
/// c with c >= 0 and c*c == v*v
pub open spec fn rabs_of(v: real) -> real { if v < 0real { -v } else { v } }

pub proof fn thm_per_den_positive(x: Seq<T>, n: int, nl: int, j: int)
    requires n >= 4, x.len() == n, axis_incr(x), 0 <= j < nl
    ensures per_den(x, n, nl, j) > 0real
{
    thm_per_pivots_nonzero(x, n);
    let up = per_up(x, n); let mid = per_mid(x, n); let low = per_low(x, n); let r2 = per_rhs2(x, n, nl);
    let m = n - 2;
    let ks = k2seq(x, n, nl, j);
    let a = amax(ks, m);
    lemma_amax(ks, m, 0);
    lemma_amax(ks, m, m - 1);
    let c = rabs_of(ks[a]);
    assert(c >= 0real && sq(ks[a]) == c * c) by(nonlinear_arith) requires c == rabs_of(ks[a]);
    assert(sq(ks[0]) <= c * c && sq(ks[m - 1]) <= c * c);
    assert(hx(x, 0) > 0real && hx(x, n - 2) > 0real && hx(x, n - 3) > 0real && hx(x, n - 4) > 0real);
    thm_thomas_solves(up, mid, low, r2, j, m, a);
    assert(ks[a] == per_k2(x, n, nl, j, a));
    if a > 0 { lemma_amax(ks, m, a - 1); assert(ks[a - 1] == per_k2(x, n, nl, j, a - 1)); }
    if a < m - 1 { lemma_amax(ks, m, a + 1); assert(ks[a + 1] == per_k2(x, n, nl, j, a + 1)); }
    assert(up[a] == (if a == 0 { hx(x, n - 2) } else { hx(x, a - 1) }) && low[a] == (if a == 0 { 0real } else { hx(x, a) }));
    assert(mid[a] == (if a == 0 { 2real * (hx(x, n - 2) + hx(x, 0)) } else { 2real * (hx(x, a) + hx(x, a - 1)) }));
    assert(r2[a][j] == (if a == n - 3 { -hx(x, n - 4) } else if a == 0 { -hx(x, 0) } else { 0real }));
    if a > 0 { assert(hx(x, a) > 0real && hx(x, a - 1) > 0real); }
    let lo = if a > 0 { low[a] } else { 0real };
    let u = if a < m - 1 { up[a] } else { 0real };
    let k0 = if a > 0 { ks[a - 1] } else { 0real };
    let k2 = if a < m - 1 { ks[a + 1] } else { 0real };
    assert(k0 * k0 <= c * c && k2 * k2 <= c * c) by(nonlinear_arith)
        requires c >= 0real, (a > 0 ==> sq(ks[a - 1]) <= c * c), (a < m - 1 ==> sq(ks[a + 1]) <= c * c), k0 == (if a > 0 { ks[a - 1] } else { 0real }), k2 == (if a < m - 1 { ks[a + 1] } else { 0real }),
                 sq(ks[a - 1]) == ks[a - 1] * ks[a - 1], sq(ks[a + 1]) == ks[a + 1] * ks[a + 1];
    assert(lo * k0 + mid[a] * ks[a] + u * k2 == r2[a][j]) by(nonlinear_arith)
        requires row_lhs(up, mid, low, m, a, per_k2(x, n, nl, j, a - 1), per_k2(x, n, nl, j, a), per_k2(x, n, nl, j, a + 1)) == r2[a][j],
                 row_lhs(up, mid, low, m, a, per_k2(x, n, nl, j, a - 1), per_k2(x, n, nl, j, a), per_k2(x, n, nl, j, a + 1))
                   == (if a > 0 { low[a] * per_k2(x, n, nl, j, a - 1) } else { 0real }) + mid[a] * per_k2(x, n, nl, j, a) + (if a < m - 1 { up[a] * per_k2(x, n, nl, j, a + 1) } else { 0real }),
                 ks[a] == per_k2(x, n, nl, j, a), (a > 0 ==> ks[a - 1] == per_k2(x, n, nl, j, a - 1)), (a < m - 1 ==> ks[a + 1] == per_k2(x, n, nl, j, a + 1)),
                 lo == (if a > 0 { low[a] } else { 0real }), u == (if a < m - 1 { up[a] } else { 0real }),
                 k0 == (if a > 0 { ks[a - 1] } else { 0real }), k2 == (if a < m - 1 { ks[a + 1] } else { 0real });
    assert(lo >= 0real && u >= 0real && mid[a] - lo - u > 0real);
    L_maxp_step(lo, mid[a], u, k0, ks[a], k2, r2[a][j], c);
    let g = mid[a] - lo - u;
    // in every case c < 1/2
    if a == 0 {
        assert(g == hx(x, n - 2) + 2real * hx(x, 0));
        assert(r2[a][j] * r2[a][j] == hx(x, 0) * hx(x, 0)) by(nonlinear_arith) requires r2[a][j] == -hx(x, 0) || (n == 4 && false);
        assert((c * (hx(x, n - 2) + 2real * hx(x, 0))) * (c * (hx(x, n - 2) + 2real * hx(x, 0))) <= hx(x, 0) * hx(x, 0)) by(nonlinear_arith)
            requires (g * c) * (g * c) <= r2[a][j] * r2[a][j], g == hx(x, n - 2) + 2real * hx(x, 0), r2[a][j] * r2[a][j] == hx(x, 0) * hx(x, 0);
        L_maxp_half(c, hx(x, n - 2), hx(x, 0));
    } else if a == n - 3 {
        assert(g == hx(x, n - 3) + 2real * hx(x, n - 4));
        assert(r2[a][j] * r2[a][j] == hx(x, n - 4) * hx(x, n - 4)) by(nonlinear_arith) requires r2[a][j] == -hx(x, n - 4);
        assert((c * (hx(x, n - 3) + 2real * hx(x, n - 4))) * (c * (hx(x, n - 3) + 2real * hx(x, n - 4))) <= hx(x, n - 4) * hx(x, n - 4)) by(nonlinear_arith)
            requires (g * c) * (g * c) <= r2[a][j] * r2[a][j], g == hx(x, n - 3) + 2real * hx(x, n - 4), r2[a][j] * r2[a][j] == hx(x, n - 4) * hx(x, n - 4);
        L_maxp_half(c, hx(x, n - 3), hx(x, n - 4));
    } else {
        assert(r2[a][j] == 0real);
        assert((g * c) * (g * c) <= 0real) by(nonlinear_arith) requires (g * c) * (g * c) <= r2[a][j] * r2[a][j], r2[a][j] == 0real;
        L_maxp_zero(c, g);
    }
    assert(2real * c < 1real);
    assert(ks[0] == per_k2(x, n, nl, j, 0) && ks[m - 1] == per_k2(x, n, nl, j, n - 3));
    assert(ks[0] * ks[0] <= c * c && ks[m - 1] * ks[m - 1] <= c * c);
    L_maxp_den_positive(per_k2(x, n, nl, j, 0), per_k2(x, n, nl, j, n - 3), hx(x, n - 3), hx(x, n - 2), c);
}
