// ---- specs/monotonic.rs : the classification of C12, written from the property statement
pub open spec fn pair_lt(s: Seq<T>, i: int) -> bool { t_lt(s[i], s[i + 1]) }
pub open spec fn pair_eq(s: Seq<T>, i: int) -> bool { t_eq(s[i], s[i + 1]) }
pub open spec fn pair_gt(s: Seq<T>, i: int) -> bool { t_gt(s[i], s[i + 1]) }
pub open spec fn pair_nan(s: Seq<T>, i: int) -> bool { is_nan(s[i]) || is_nan(s[i + 1]) }
pub open spec fn all_lt(s: Seq<T>) -> bool { forall|i: int| 0 <= i < s.len() - 1 ==> #[trigger] pair_lt(s, i) }
pub open spec fn all_eq(s: Seq<T>) -> bool { forall|i: int| 0 <= i < s.len() - 1 ==> #[trigger] pair_eq(s, i) }
pub open spec fn all_gt(s: Seq<T>) -> bool { forall|i: int| 0 <= i < s.len() - 1 ==> #[trigger] pair_gt(s, i) }
pub open spec fn all_le(s: Seq<T>) -> bool { forall|i: int| 0 <= i < s.len() - 1 ==> (#[trigger] pair_lt(s, i) || pair_eq(s, i)) }
pub open spec fn all_ge(s: Seq<T>) -> bool { forall|i: int| 0 <= i < s.len() - 1 ==> (#[trigger] pair_gt(s, i) || pair_eq(s, i)) }
pub open spec fn some_lt(s: Seq<T>) -> bool { exists|i: int| 0 <= i < s.len() - 1 && #[trigger] pair_lt(s, i) }
pub open spec fn some_eq(s: Seq<T>) -> bool { exists|i: int| 0 <= i < s.len() - 1 && #[trigger] pair_eq(s, i) }
pub open spec fn some_gt(s: Seq<T>) -> bool { exists|i: int| 0 <= i < s.len() - 1 && #[trigger] pair_gt(s, i) }
pub open spec fn some_nan(s: Seq<T>) -> bool { exists|i: int| 0 <= i < s.len() - 1 && #[trigger] pair_nan(s, i) }
pub open spec fn has_nan(s: Seq<T>) -> bool { exists|i: int| 0 <= i < s.len() && is_nan(#[trigger] s[i]) }

/// C12: the classification of a NaN-free vector
pub open spec fn classify(s: Seq<T>) -> Monotonic {
    if s.len() < 2 { Monotonic::NotMonotonic }
    else if all_lt(s) { Monotonic::Rising { strict: true } }
    else if all_gt(s) { Monotonic::Falling { strict: true } }
    else if all_le(s) && some_eq(s) && some_lt(s) { Monotonic::Rising { strict: false } }
    else if all_ge(s) && some_eq(s) && some_gt(s) { Monotonic::Falling { strict: false } }
    else { Monotonic::NotMonotonic }
}

/// meaning of the automaton state after the consecutive pairs of `s` have been fed to it
pub open spec fn mono_inv(st: MonotonicState, s: Seq<T>) -> bool {
    if s.len() < 2 { st is Init }
    else if some_nan(s) { st matches MonotonicState::Likely(m) && (m is Falling || m is NotMonotonic) }
    else if all_eq(s) { st is NotStrict }
    else { st == MonotonicState::Likely(classify(s)) }
}

pub proof fn lemma_push(s: Seq<T>, b: T)
    requires s.len() >= 1
    ensures ({ let s2 = s.push(b); let l = s[s.len() - 1];
        &&& all_lt(s2) == (all_lt(s) && t_lt(l, b))
        &&& all_eq(s2) == (all_eq(s) && t_eq(l, b))
        &&& all_gt(s2) == (all_gt(s) && t_gt(l, b))
        &&& all_le(s2) == (all_le(s) && (t_lt(l, b) || t_eq(l, b)))
        &&& all_ge(s2) == (all_ge(s) && (t_gt(l, b) || t_eq(l, b)))
        &&& some_lt(s2) == (some_lt(s) || t_lt(l, b))
        &&& some_eq(s2) == (some_eq(s) || t_eq(l, b))
        &&& some_gt(s2) == (some_gt(s) || t_gt(l, b))
        &&& some_nan(s2) == (some_nan(s) || is_nan(l) || is_nan(b))
    })
{
    let s2 = s.push(b);
    let n = s.len() as int;
    let l = s[n - 1];
    assert forall|i: int| 0 <= i < n - 1 implies
        pair_lt(s2, i) == pair_lt(s, i) && pair_eq(s2, i) == pair_eq(s, i) && pair_gt(s2, i) == pair_gt(s, i) && pair_nan(s2, i) == pair_nan(s, i) by {
        assert(s2[i] == s[i] && s2[i + 1] == s[i + 1]);
    }
    assert(s2[n - 1] == l && s2[n] == b);
    assert(pair_lt(s2, n - 1) == t_lt(l, b));
    assert(pair_eq(s2, n - 1) == t_eq(l, b));
    assert(pair_gt(s2, n - 1) == t_gt(l, b));
    assert(pair_nan(s2, n - 1) == (is_nan(l) || is_nan(b)));
    lemma_push_all_lt(s, b); lemma_push_all_eq(s, b); lemma_push_all_gt(s, b); lemma_push_all_le(s, b); lemma_push_all_ge(s, b);
    lemma_push_some_lt(s, b); lemma_push_some_eq(s, b); lemma_push_some_gt(s, b); lemma_push_some_nan(s, b);
}
pub proof fn lemma_push_all_lt(s: Seq<T>, b: T) requires s.len() >= 1
    ensures all_lt(s.push(b)) == (all_lt(s) && t_lt(s[s.len() - 1], b))
{
    let s2 = s.push(b); let n = s.len() as int;
    if all_lt(s2) {
        assert forall|i: int| 0 <= i < n - 1 implies #[trigger] pair_lt(s, i) by { assert(pair_lt(s2, i)); assert(s2[i] == s[i] && s2[i + 1] == s[i + 1]); }
        assert(pair_lt(s2, n - 1)); assert(s2[n - 1] == s[n - 1] && s2[n] == b);
    }
    if all_lt(s) && t_lt(s[n - 1], b) {
        assert forall|i: int| 0 <= i < s2.len() - 1 implies #[trigger] pair_lt(s2, i) by {
            if i < n - 1 { assert(pair_lt(s, i)); assert(s2[i] == s[i] && s2[i + 1] == s[i + 1]); } else { assert(s2[n - 1] == s[n - 1] && s2[n] == b); }
        }
    }
}
pub proof fn lemma_push_all_eq(s: Seq<T>, b: T) requires s.len() >= 1
    ensures all_eq(s.push(b)) == (all_eq(s) && t_eq(s[s.len() - 1], b))
{
    let s2 = s.push(b); let n = s.len() as int;
    if all_eq(s2) {
        assert forall|i: int| 0 <= i < n - 1 implies #[trigger] pair_eq(s, i) by { assert(pair_eq(s2, i)); assert(s2[i] == s[i] && s2[i + 1] == s[i + 1]); }
        assert(pair_eq(s2, n - 1)); assert(s2[n - 1] == s[n - 1] && s2[n] == b);
    }
    if all_eq(s) && t_eq(s[n - 1], b) {
        assert forall|i: int| 0 <= i < s2.len() - 1 implies #[trigger] pair_eq(s2, i) by {
            if i < n - 1 { assert(pair_eq(s, i)); assert(s2[i] == s[i] && s2[i + 1] == s[i + 1]); } else { assert(s2[n - 1] == s[n - 1] && s2[n] == b); }
        }
    }
}
pub proof fn lemma_push_all_gt(s: Seq<T>, b: T) requires s.len() >= 1
    ensures all_gt(s.push(b)) == (all_gt(s) && t_gt(s[s.len() - 1], b))
{
    let s2 = s.push(b); let n = s.len() as int;
    if all_gt(s2) {
        assert forall|i: int| 0 <= i < n - 1 implies #[trigger] pair_gt(s, i) by { assert(pair_gt(s2, i)); assert(s2[i] == s[i] && s2[i + 1] == s[i + 1]); }
        assert(pair_gt(s2, n - 1)); assert(s2[n - 1] == s[n - 1] && s2[n] == b);
    }
    if all_gt(s) && t_gt(s[n - 1], b) {
        assert forall|i: int| 0 <= i < s2.len() - 1 implies #[trigger] pair_gt(s2, i) by {
            if i < n - 1 { assert(pair_gt(s, i)); assert(s2[i] == s[i] && s2[i + 1] == s[i + 1]); } else { assert(s2[n - 1] == s[n - 1] && s2[n] == b); }
        }
    }
}
pub proof fn lemma_push_all_le(s: Seq<T>, b: T) requires s.len() >= 1
    ensures all_le(s.push(b)) == (all_le(s) && (t_lt(s[s.len() - 1], b) || t_eq(s[s.len() - 1], b)))
{
    let s2 = s.push(b); let n = s.len() as int;
    if all_le(s2) {
        assert forall|i: int| 0 <= i < n - 1 implies (#[trigger] pair_lt(s, i) || pair_eq(s, i)) by { assert(pair_lt(s2, i) || pair_eq(s2, i)); assert(s2[i] == s[i] && s2[i + 1] == s[i + 1]); }
        assert(pair_lt(s2, n - 1) || pair_eq(s2, n - 1)); assert(s2[n - 1] == s[n - 1] && s2[n] == b);
    }
    if all_le(s) && (t_lt(s[n - 1], b) || t_eq(s[n - 1], b)) {
        assert forall|i: int| 0 <= i < s2.len() - 1 implies (#[trigger] pair_lt(s2, i) || pair_eq(s2, i)) by {
            if i < n - 1 { assert(pair_lt(s, i) || pair_eq(s, i)); assert(s2[i] == s[i] && s2[i + 1] == s[i + 1]); } else { assert(s2[n - 1] == s[n - 1] && s2[n] == b); }
        }
    }
}
pub proof fn lemma_push_all_ge(s: Seq<T>, b: T) requires s.len() >= 1
    ensures all_ge(s.push(b)) == (all_ge(s) && (t_gt(s[s.len() - 1], b) || t_eq(s[s.len() - 1], b)))
{
    let s2 = s.push(b); let n = s.len() as int;
    if all_ge(s2) {
        assert forall|i: int| 0 <= i < n - 1 implies (#[trigger] pair_gt(s, i) || pair_eq(s, i)) by { assert(pair_gt(s2, i) || pair_eq(s2, i)); assert(s2[i] == s[i] && s2[i + 1] == s[i + 1]); }
        assert(pair_gt(s2, n - 1) || pair_eq(s2, n - 1)); assert(s2[n - 1] == s[n - 1] && s2[n] == b);
    }
    if all_ge(s) && (t_gt(s[n - 1], b) || t_eq(s[n - 1], b)) {
        assert forall|i: int| 0 <= i < s2.len() - 1 implies (#[trigger] pair_gt(s2, i) || pair_eq(s2, i)) by {
            if i < n - 1 { assert(pair_gt(s, i) || pair_eq(s, i)); assert(s2[i] == s[i] && s2[i + 1] == s[i + 1]); } else { assert(s2[n - 1] == s[n - 1] && s2[n] == b); }
        }
    }
}
pub proof fn lemma_push_some_lt(s: Seq<T>, b: T) requires s.len() >= 1
    ensures some_lt(s.push(b)) == (some_lt(s) || t_lt(s[s.len() - 1], b))
{
    let s2 = s.push(b); let n = s.len() as int;
    assert(s2[n - 1] == s[n - 1] && s2[n] == b);
    if some_lt(s2) {
        let i = choose|i: int| 0 <= i < s2.len() - 1 && #[trigger] pair_lt(s2, i);
        if i < n - 1 { assert(s2[i] == s[i] && s2[i + 1] == s[i + 1]); assert(pair_lt(s, i)); }
    }
    if some_lt(s) {
        let i = choose|i: int| 0 <= i < s.len() - 1 && #[trigger] pair_lt(s, i);
        assert(s2[i] == s[i] && s2[i + 1] == s[i + 1]); assert(pair_lt(s2, i));
    }
    if t_lt(s[n - 1], b) { assert(pair_lt(s2, n - 1)); }
}
pub proof fn lemma_push_some_eq(s: Seq<T>, b: T) requires s.len() >= 1
    ensures some_eq(s.push(b)) == (some_eq(s) || t_eq(s[s.len() - 1], b))
{
    let s2 = s.push(b); let n = s.len() as int;
    assert(s2[n - 1] == s[n - 1] && s2[n] == b);
    if some_eq(s2) {
        let i = choose|i: int| 0 <= i < s2.len() - 1 && #[trigger] pair_eq(s2, i);
        if i < n - 1 { assert(s2[i] == s[i] && s2[i + 1] == s[i + 1]); assert(pair_eq(s, i)); }
    }
    if some_eq(s) {
        let i = choose|i: int| 0 <= i < s.len() - 1 && #[trigger] pair_eq(s, i);
        assert(s2[i] == s[i] && s2[i + 1] == s[i + 1]); assert(pair_eq(s2, i));
    }
    if t_eq(s[n - 1], b) { assert(pair_eq(s2, n - 1)); }
}
pub proof fn lemma_push_some_gt(s: Seq<T>, b: T) requires s.len() >= 1
    ensures some_gt(s.push(b)) == (some_gt(s) || t_gt(s[s.len() - 1], b))
{
    let s2 = s.push(b); let n = s.len() as int;
    assert(s2[n - 1] == s[n - 1] && s2[n] == b);
    if some_gt(s2) {
        let i = choose|i: int| 0 <= i < s2.len() - 1 && #[trigger] pair_gt(s2, i);
        if i < n - 1 { assert(s2[i] == s[i] && s2[i + 1] == s[i + 1]); assert(pair_gt(s, i)); }
    }
    if some_gt(s) {
        let i = choose|i: int| 0 <= i < s.len() - 1 && #[trigger] pair_gt(s, i);
        assert(s2[i] == s[i] && s2[i + 1] == s[i + 1]); assert(pair_gt(s2, i));
    }
    if t_gt(s[n - 1], b) { assert(pair_gt(s2, n - 1)); }
}
pub proof fn lemma_push_some_nan(s: Seq<T>, b: T) requires s.len() >= 1
    ensures some_nan(s.push(b)) == (some_nan(s) || is_nan(s[s.len() - 1]) || is_nan(b))
{
    let s2 = s.push(b); let n = s.len() as int;
    assert(s2[n - 1] == s[n - 1] && s2[n] == b);
    if some_nan(s2) {
        let i = choose|i: int| 0 <= i < s2.len() - 1 && #[trigger] pair_nan(s2, i);
        if i < n - 1 { assert(s2[i] == s[i] && s2[i + 1] == s[i + 1]); assert(pair_nan(s, i)); }
    }
    if some_nan(s) {
        let i = choose|i: int| 0 <= i < s.len() - 1 && #[trigger] pair_nan(s, i);
        assert(s2[i] == s[i] && s2[i + 1] == s[i + 1]); assert(pair_nan(s2, i));
    }
    if is_nan(s[n - 1]) || is_nan(b) { assert(pair_nan(s2, n - 1)); }
}
/// consistency facts that need the first pair as a witness
pub proof fn lemma_first(s: Seq<T>)
    requires s.len() >= 2
    ensures
        all_lt(s) ==> some_lt(s) && !all_eq(s) && !all_gt(s) && !some_nan(s),
        all_gt(s) ==> some_gt(s) && !all_eq(s) && !all_lt(s) && !some_nan(s),
        all_eq(s) ==> some_eq(s) && !all_lt(s) && !all_gt(s) && !some_nan(s) && !some_lt(s) && !some_gt(s) && all_le(s) && all_ge(s),
        all_lt(s) ==> all_le(s) && !some_eq(s) && !some_gt(s),
        all_gt(s) ==> all_ge(s) && !some_eq(s) && !some_lt(s),
        all_le(s) ==> !some_gt(s) && !some_nan(s),
        all_ge(s) ==> !some_lt(s) && !some_nan(s),
{
    assert(pair_lt(s, 0) || !pair_lt(s, 0));
    if all_lt(s) { assert(pair_lt(s, 0)); }
    if all_gt(s) { assert(pair_gt(s, 0)); }
    if all_eq(s) { assert(pair_eq(s, 0)); }
    if some_nan(s) { let i = choose|i: int| 0 <= i < s.len() - 1 && #[trigger] pair_nan(s, i);
        assert(!pair_lt(s, i) && !pair_eq(s, i) && !pair_gt(s, i)); }
    if some_eq(s) { let i = choose|i: int| 0 <= i < s.len() - 1 && #[trigger] pair_eq(s, i); assert(!pair_lt(s, i) && !pair_gt(s, i)); }
    if some_gt(s) { let i = choose|i: int| 0 <= i < s.len() - 1 && #[trigger] pair_gt(s, i); assert(!pair_lt(s, i) && !pair_eq(s, i)); }
    if some_lt(s) { let i = choose|i: int| 0 <= i < s.len() - 1 && #[trigger] pair_lt(s, i); assert(!pair_gt(s, i) && !pair_eq(s, i)); }
}
/// a pair-wise ordered NaN-free vector that is not all-strict has a tie, and one that is not constant has a strict step
pub proof fn lemma_witness(s: Seq<T>)
    requires s.len() >= 2
    ensures
        all_le(s) && !all_lt(s) ==> some_eq(s),
        all_le(s) && !all_eq(s) ==> some_lt(s),
        all_ge(s) && !all_gt(s) ==> some_eq(s),
        all_ge(s) && !all_eq(s) ==> some_gt(s),
{
    if all_le(s) && !all_lt(s) { let i = choose|i: int| 0 <= i < s.len() - 1 && !#[trigger] pair_lt(s, i); assert(pair_lt(s, i) || pair_eq(s, i)); }
    if all_le(s) && !all_eq(s) { let i = choose|i: int| 0 <= i < s.len() - 1 && !#[trigger] pair_eq(s, i); assert(pair_lt(s, i) || pair_eq(s, i)); }
    if all_ge(s) && !all_gt(s) { let i = choose|i: int| 0 <= i < s.len() - 1 && !#[trigger] pair_gt(s, i); assert(pair_gt(s, i) || pair_eq(s, i)); }
    if all_ge(s) && !all_eq(s) { let i = choose|i: int| 0 <= i < s.len() - 1 && !#[trigger] pair_eq(s, i); assert(pair_gt(s, i) || pair_eq(s, i)); }
}
pub open spec fn step_facts(s: Seq<T>, b: T) -> bool {
    let s2 = s.push(b); let l = s[s.len() - 1];
    &&& all_lt(s2) == (all_lt(s) && t_lt(l, b))
    &&& all_eq(s2) == (all_eq(s) && t_eq(l, b))
    &&& all_gt(s2) == (all_gt(s) && t_gt(l, b))
    &&& all_le(s2) == (all_le(s) && (t_lt(l, b) || t_eq(l, b)))
    &&& all_ge(s2) == (all_ge(s) && (t_gt(l, b) || t_eq(l, b)))
    &&& some_lt(s2) == (some_lt(s) || t_lt(l, b))
    &&& some_eq(s2) == (some_eq(s) || t_eq(l, b))
    &&& some_gt(s2) == (some_gt(s) || t_gt(l, b))
    &&& some_nan(s2) == (some_nan(s) || is_nan(l) || is_nan(b))
}
pub open spec fn lemma_first_facts(s: Seq<T>) -> bool {
    &&& all_lt(s) ==> some_lt(s) && !all_eq(s) && !all_gt(s) && !some_nan(s)
    &&& all_gt(s) ==> some_gt(s) && !all_eq(s) && !all_lt(s) && !some_nan(s)
    &&& all_eq(s) ==> some_eq(s) && !all_lt(s) && !all_gt(s) && !some_nan(s) && !some_lt(s) && !some_gt(s) && all_le(s) && all_ge(s)
    &&& all_lt(s) ==> all_le(s) && !some_eq(s) && !some_gt(s)
    &&& all_gt(s) ==> all_ge(s) && !some_eq(s) && !some_lt(s)
    &&& all_le(s) ==> !some_gt(s) && !some_nan(s)
    &&& all_ge(s) ==> !some_lt(s) && !some_nan(s)
}
pub open spec fn witness_facts(s: Seq<T>) -> bool {
    &&& all_le(s) && !all_lt(s) ==> some_eq(s)
    &&& all_le(s) && !all_eq(s) ==> some_lt(s)
    &&& all_ge(s) && !all_gt(s) ==> some_eq(s)
    &&& all_ge(s) && !all_eq(s) ==> some_gt(s)
}

// ---- the contracts of update / finish as predicates, and C12 as a theorem over them -------------
pub open spec fn update_post(st: MonotonicState, a: T, b: T, r: MonotonicState) -> bool {
    forall|s: Seq<T>| s.len() >= 1 && s[s.len() - 1] == a && #[trigger] mono_inv(st, s) ==> mono_inv(r, s.push(b))
}
pub open spec fn finish_post(st: MonotonicState, r: Monotonic) -> bool {
    forall|s: Seq<T>| s.len() >= 2 && #[trigger] mono_inv(st, s) ==> (if some_nan(s) { !(r is Rising) } else { r == classify(s) })
}
pub open spec fn nan_free(v: Seq<T>) -> bool { forall|i: int| 0 <= i < v.len() ==> !is_nan(#[trigger] v[i]) }

/// what `try_fold` over `windows(2)` computes (ASSUMED semantics of the iterator pipeline, checked
/// bounded by Kani): states[i+1] is produced from states[i] by `update(v[i], v[i+1])`
pub open spec fn is_run(states: Seq<MonotonicState>, v: Seq<T>, upto: int) -> bool {
    &&& states.len() == v.len() && v.len() >= 1 && 0 <= upto < v.len()
    &&& states[0] is Init
    &&& forall|i: int| 0 <= i < upto ==> #[trigger] update_post(states[i], v[i], v[i + 1], states[i + 1])
}
pub proof fn lemma_run_inv(states: Seq<MonotonicState>, v: Seq<T>, upto: int, k: int)
    requires is_run(states, v, upto), 0 <= k <= upto
    ensures mono_inv(states[k], v.take(k + 1))
    decreases k
{
    if k == 0 {
        assert(v.take(1).len() == 1);
    } else {
        lemma_run_inv(states, v, upto, k - 1);
        let s = v.take(k);
        assert(s[s.len() - 1] == v[k - 1]);
        assert(update_post(states[k - 1], v[k - 1], v[k], states[k]));
        assert(s.push(v[k]) =~= v.take(k + 1));
    }
}
pub proof fn lemma_some_nan_iff(v: Seq<T>)
    requires v.len() >= 2
    ensures some_nan(v) == !nan_free(v)
{
    if some_nan(v) { let i = choose|i: int| 0 <= i < v.len() - 1 && #[trigger] pair_nan(v, i); assert(is_nan(v[i]) || is_nan(v[i + 1])); }
    if !nan_free(v) {
        let i = choose|i: int| 0 <= i < v.len() && is_nan(#[trigger] v[i]);
        if i < v.len() - 1 { assert(pair_nan(v, i)); } else { assert(pair_nan(v, i - 1)); }
    }
}
/// once a NaN-free prefix is classified NotMonotonic, every NaN-free extension is
pub proof fn lemma_notmono_absorbing(v: Seq<T>, k: int)
    requires 2 <= k <= v.len(), nan_free(v), !all_eq(v.take(k)), classify(v.take(k)) == Monotonic::NotMonotonic
    ensures classify(v) == Monotonic::NotMonotonic
    decreases v.len() - k
{
    if k == v.len() {
        assert(v.take(k) =~= v);
    } else {
        let s = v.take(k);
        let s2 = v.take(k + 1);
        assert(s.push(v[k]) =~= s2);
        lemma_push(s, v[k]);
        lemma_first(s); lemma_witness(s); lemma_first(s2); lemma_witness(s2);
        lemma_notmono_absorbing(v, k + 1);
    }
}
/// C12, complete pass: the fold ran over all pairs and `finish` was applied
pub proof fn thm_C12_complete(states: Seq<MonotonicState>, v: Seq<T>, r: Monotonic)
    requires v.len() >= 2, is_run(states, v, v.len() - 1), finish_post(states[v.len() - 1], r)
    ensures nan_free(v) ==> r == classify(v),
            !nan_free(v) ==> !(r is Rising),
{
    lemma_run_inv(states, v, v.len() - 1, v.len() - 1);
    assert(v.take(v.len() as int) =~= v);
    lemma_some_nan_iff(v);
}
/// C12, early exit: the fold stopped after pair k-1 because the state became Likely(NotMonotonic)
pub proof fn thm_C12_early_exit(states: Seq<MonotonicState>, v: Seq<T>, k: int)
    requires v.len() >= 2, 1 <= k < v.len(), is_run(states, v, k), states[k] == MonotonicState::Likely(Monotonic::NotMonotonic)
    ensures nan_free(v) ==> classify(v) == Monotonic::NotMonotonic
{
    lemma_run_inv(states, v, k, k);
    if nan_free(v) {
        let p = v.take(k + 1);
        assert(nan_free(p));
        lemma_some_nan_iff(p);
        lemma_first(p);
        lemma_notmono_absorbing(v, k + 1);
    }
}
