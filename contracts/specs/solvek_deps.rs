// ---- specs/solvek_deps.rs : explicit data flow through CubicSpline::solve_for_k (C08, bit level)
pub enum BuilderError { NotEnoughData(String), Monotonic(String), ShapeError(String), ValueError(String) }
pub open spec fn sb_deps(b: SingleBoundary<T>) -> Set<Cell> {
    match b { SingleBoundary::FirstDeriv(v) => v.deps@, SingleBoundary::SecondDeriv(v) => v.deps@, _ => Set::empty() }
}
pub open spec fn ib_deps(b: InternalBoundary<T>) -> Set<Cell> {
    match b { InternalBoundary::Mixed { left, right } => sb_deps(left).union(sb_deps(right)), _ => Set::empty() }
}
/// what lane j of the slopes may depend on: the axis, the end values of THIS call, and lane j of the data — no other lane
pub open spec fn slope_deps(x: Seq<T>, y: Seq<Seq<T>>, b: InternalBoundary<T>, j: int) -> Set<Cell> {
    vec_deps(x, x.len() as int).union(ib_deps(b)).union(col_deps(y, j, y.len() as int))
}
pub open spec fn ib_sided_path(b: InternalBoundary<T>, n: int) -> bool {
    !(b is Periodic) && !(n == 3 && (b is NotAKnot || (b matches InternalBoundary::Mixed { left, right } && left is NotAKnot && right is NotAKnot)))
}
