// ---- specs/coef.rs : the coefficient step of CubicSpline::calc_coefficients (a, b from the knot slopes k)
pub struct CoefLoop { }
pub open spec fn lanes_of(d: &ArrD) -> int { d.rows@[0].len() as int }
pub open spec fn rect(rows: Seq<Seq<T>>, l: int) -> bool { forall|i: int| 0 <= i < rows.len() ==> (#[trigger] rows[i]).len() == l }
pub open spec fn deps6(a: T, b: T, c: T, d: T, e: T, f: T) -> Set<Cell> {
    a.deps@.union(b.deps@).union(c.deps@).union(d.deps@).union(e.deps@).union(f.deps@)
}
/// value-level contract of one (piece, lane): a = k_l*h - dy, b = dy - k_r*h, depending on nothing else
pub open spec fn coef_ok(a: T, b: T, kl: T, kr: T, xl: T, xr: T, yl: T, yr: T) -> bool {
    &&& a@ == kl@ * (xr@ - xl@) - (yr@ - yl@)
    &&& b@ == (yr@ - yl@) - kr@ * (xr@ - xl@)
    &&& a.deps@.subset_of(deps6(kl, kr, xl, xr, yl, yr)) && b.deps@.subset_of(deps6(kl, kr, xl, xr, yl, yr))
    &&& (is_fin(kl) && is_fin(kr) && is_fin(xl) && is_fin(xr) && is_fin(yl) && is_fin(yr)) ==> (is_fin(a) && is_fin(b))
}
/// C02 (first-derivative continuity), unbounded: with coefficients produced by the coefficient loop, the Hermite
/// pieces left and right of an interior knot x_i both have slope k_i there — for ANY slopes k the solver returned,
/// and they pass through the data point.  (The C2 condition depends on k solving the tridiagonal system: engine S.)
pub proof fn thm_C02_C1(xl: real, xm: real, xr: real, yl: real, ym: real, yr: real, kl: real, km: real, kr: real, a0: real, b0: real, a1: real, b1: real)
    requires xl < xm, xm < xr,
             a0 == kl * (xm - xl) - (ym - yl), b0 == (ym - yl) - km * (xm - xl),
             a1 == km * (xr - xm) - (yr - ym), b1 == (yr - ym) - kr * (xr - xm),
    ensures
        // value continuity at x_m
        herm(xl, xm, yl, ym, a0, b0, xm) == ym && herm(xm, xr, ym, yr, a1, b1, xm) == ym,
        // slope of the left piece at its right end == k_m == slope of the right piece at its left end
        herm_c1(xl, xm, yl, ym, a0, b0) + 2real * herm_c2(xl, xm, yl, ym, a0, b0) * (xm - xl) + 3real * herm_c3(xl, xm, yl, ym, a0, b0) * (xm - xl) * (xm - xl) == km,
        herm_c1(xm, xr, ym, yr, a1, b1) == km,
{
    L_herm_at_right(xl, xm, yl, ym, a0, b0);
    L_herm_at_left(xm, xr, ym, yr, a1, b1);
    L_herm_right_slope(xl, xm, yl, ym, kl, km);
    L_herm_left_slope(xm, xr, ym, yr, km, kr);
}
