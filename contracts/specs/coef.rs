// ---- specs/coef.rs : the coefficient step of CubicSpline::calc_coefficients (a, b from the knot slopes k)
pub struct CoefLoop { }
pub open spec fn lanes_of(d: &ArrD) -> int { d.rows@[0].len() as int }
pub open spec fn deps6(a: T, b: T, c: T, d: T, e: T, f: T) -> Set<Cell> {
    a.deps@.union(b.deps@).union(c.deps@).union(d.deps@).union(e.deps@).union(f.deps@)
}
/// value-level contract of one (piece, lane): a = k_l*h - dy, b = dy - k_r*h, depending on nothing else
pub open spec fn coef_ok(a: T, b: T, kl: T, kr: T, xl: T, xr: T, yl: T, yr: T) -> bool {
    &&& a@ == kl@ * (xr@ - xl@) - (yr@ - yl@)
    &&& b@ == (yr@ - yl@) - kr@ * (xr@ - xl@)
    &&& a.deps@.subset_of(deps6(kl, kr, xl, xr, yl, yr)) && b.deps@.subset_of(deps6(kl, kr, xl, xr, yl, yr))
    &&& (is_fin(kl) && is_fin(kr) && is_fin(xl) && is_fin(xr) && is_fin(yl) && is_fin(yr)) ==> (is_fin(a) && is_fin(b))
}
/// C02 (first-derivative continuity), unbounded: with coefficients produced by the coefficient loop, the Hermite
/// pieces left and right of an interior knot x_i both have slope k_i there — for ANY slopes k the solver returned,
/// and they pass through the data point.  (The C2 condition depends on k solving the tridiagonal system: engine S.)
pub proof fn thm_C02_C1(xl: real, xm: real, xr: real, yl: real, ym: real, yr: real, kl: real, km: real, kr: real, a0: real, b0: real, a1: real, b1: real)
    requires xl < xm, xm < xr,
             a0 == kl * (xm - xl) - (ym - yl), b0 == (ym - yl) - km * (xm - xl),
             a1 == km * (xr - xm) - (yr - ym), b1 == (yr - ym) - kr * (xr - xm),
    ensures
        // value continuity at x_m
        herm(xl, xm, yl, ym, a0, b0, xm) == ym && herm(xm, xr, ym, yr, a1, b1, xm) == ym,
        // slope of the left piece at its right end == k_m == slope of the right piece at its left end
        herm_c1(xl, xm, yl, ym, a0, b0) + 2real * herm_c2(xl, xm, yl, ym, a0, b0) * (xm - xl) + 3real * herm_c3(xl, xm, yl, ym, a0, b0) * (xm - xl) * (xm - xl) == km,
        herm_c1(xm, xr, ym, yr, a1, b1) == km,
{
    L_herm_at_right(xl, xm, yl, ym, a0, b0);
    L_herm_at_left(xm, xr, ym, yr, a1, b1);
    L_herm_right_slope(xl, xm, yl, ym, kl, km);
    L_herm_left_slope(xm, xr, ym, yr, km, kr);
}

/// C02 / C03 as mathematics over the contracts: IF the slopes k satisfy the row equations of the tridiagonal system
/// (residual 0), THEN the pieces built by the coefficient loop have a continuous second derivative at the knot
/// (interior row), the prescribed second derivative at an end (SecondDeriv rows) and a continuous third derivative
/// across the first / last interior knot (NotAKnot row together with the neighbouring interior row).
/// What this does NOT show is that the real solve_for_k builds exactly these rows and that thomas solves them:
/// that part is the bounded stand-in (engine S).
pub proof fn thm_rows_are_the_conditions(x0: real, x1: real, x2: real, y0: real, y1: real, y2: real, k0: real, k1: real, k2: real, v: real)
    requires x0 < x1, x1 < x2
    ensures
        res_interior(x0, x1, x2, y0, y1, y2, k0, k1, k2) == 0real ==> dd_at_left_end(x1, x2, y1, y2, k1, k2) == dd_at_right_end(x0, x1, y0, y1, k0, k1),
        (3real * (y1 - y0) - v * (x1 - x0) * (x1 - x0) / 2real) - (2real * (x1 - x0) * k0 + (x1 - x0) * k1) == 0real ==> dd_at_left_end(x0, x1, y0, y1, k0, k1) == v,
        (3real * (y1 - y0) + v * (x1 - x0) * (x1 - x0) / 2real) - (2real * (x1 - x0) * k1 + (x1 - x0) * k0) == 0real ==> dd_at_right_end(x0, x1, y0, y1, k0, k1) == v,
        (res_nak_left(x0, x1, x2, y0, y1, y2, k0, k1) == 0real && res_interior(x0, x1, x2, y0, y1, y2, k0, k1, k2) == 0real) ==> ddd(x1, x2, y1, y2, k1, k2) == ddd(x0, x1, y0, y1, k0, k1),
        (res_nak_right(x0, x1, x2, y0, y1, y2, k1, k2) == 0real && res_interior(x0, x1, x2, y0, y1, y2, k0, k1, k2) == 0real) ==> ddd(x1, x2, y1, y2, k1, k2) == ddd(x0, x1, y0, y1, k0, k1),
{
    L_c2_jump_is_interior_row_residual(x0, x1, x2, y0, y1, y2, k0, k1, k2);
    L_second_deriv_left_row(x0, x1, y0, y1, k0, k1, v);
    L_second_deriv_right_row(x0, x1, y0, y1, k0, k1, v);
    L_not_a_knot_left_row(x0, x1, x2, y0, y1, y2, k0, k1, k2);
    L_not_a_knot_right_row(x0, x1, x2, y0, y1, y2, k0, k1, k2);
    let h0 = x1 - x0; let h1 = x2 - x1;
    assert(h0 > 0real && h1 > 0real);
    if res_interior(x0, x1, x2, y0, y1, y2, k0, k1, k2) == 0real {
        let j = dd_at_left_end(x1, x2, y1, y2, k1, k2) - dd_at_right_end(x0, x1, y0, y1, k0, k1);
        assert(j * h0 * h1 / 2real == 0real);
        assert(j == 0real) by(nonlinear_arith) requires j * h0 * h1 / 2real == 0real, h0 > 0real, h1 > 0real;
    }
    if (3real * (y1 - y0) - v * h0 * h0 / 2real) - (2real * h0 * k0 + h0 * k1) == 0real {
        let j = dd_at_left_end(x0, x1, y0, y1, k0, k1) - v;
        assert(j * h0 * h0 / 2real == 0real);
        assert(j == 0real) by(nonlinear_arith) requires j * h0 * h0 / 2real == 0real, h0 > 0real;
    }
    if (3real * (y1 - y0) + v * h0 * h0 / 2real) - (2real * h0 * k1 + h0 * k0) == 0real {
        let j = v - dd_at_right_end(x0, x1, y0, y1, k0, k1);
        assert(j * h0 * h0 / 2real == 0real);
        assert(j == 0real) by(nonlinear_arith) requires j * h0 * h0 / 2real == 0real, h0 > 0real;
    }
}
