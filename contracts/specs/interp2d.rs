// ---- specs/interp2d.rs : shim of Interp2D and of the 2-D strategy trait + vocabulary of the 2-D contracts
pub struct Interp2D<S> { pub x: Arr1, pub y: Arr1, pub data: ArrD2, pub strategy: S }
impl<S> Interp2D<S> {
    pub open spec fn lanes(&self) -> int { self.data.cells@[0][0].len() as int }
    pub open spec fn wf(&self) -> bool {
        &&& axis_ok(self.x@) && axis_ok(self.y@)
        &&& self.data.cells@.len() == self.x@.len()
        &&& forall|i: int| 0 <= i < self.data.cells@.len() ==> (#[trigger] self.data.cells@[i]).len() == self.y@.len()
        &&& forall|i: int, k: int| 0 <= i < self.data.cells@.len() && 0 <= k < self.y@.len() ==> (#[trigger] self.data.cells@[i][k]).len() == self.data.cells@[0][0].len()
    }
}
pub trait Interp2DStrategy: Sized {
    spec fn strat_wf(&self, i: &Interp2D<Self>) -> bool;
    spec fn query_ok(&self, x: T, y: T) -> bool;
    spec fn interp_post(&self, i: &Interp2D<Self>, target_before: Seq<T>, x: T, y: T, r: Result<(), InterpolateError>, target_after: Seq<T>) -> bool;
    fn interp_into(&self, interpolator: &Interp2D<Self>, target: &mut Lanes, x: T, y: T) -> (r: Result<(), InterpolateError>)
        requires interpolator.wf(), self.strat_wf(interpolator), self.query_ok(x, y)
        ensures self.interp_post(interpolator, old(target)@, x, y, r, final(target)@);
}
/// value-level contract of one Bilinear lane: the nested-line (= bilinear) blend of the four corner
/// values, depending on nothing but its operands, finite in => finite out
pub open spec fn bil_ok(r: T, x1: T, x2: T, y1: T, y2: T, z11: T, z12: T, z21: T, z22: T, x: T, y: T) -> bool {
    &&& (x1@ != x2@ && y1@ != y2@) ==> r@ == bilin(x1@, x2@, y1@, y2@, z11@, z12@, z21@, z22@, x@, y@)
    &&& r.deps@.subset_of(deps5(x1, x2, y1, y2, x).union(deps5(z11, z12, z21, z22, y)))
    &&& (is_fin(x1) && is_fin(x2) && is_fin(y1) && is_fin(y2) && is_fin(z11) && is_fin(z12) && is_fin(z21) && is_fin(z22) && is_fin(x) && is_fin(y)
         && x1@ != x2@ && y1@ != y2@) ==> is_fin(r)
}
pub open spec fn bilinear_ok<S>(r: T, it: &Interp2D<S>, i: int, k: int, x: T, y: T, j: int) -> bool {
    let c = it.data.cells@;
    bil_ok(r, it.x@[i], it.x@[i + 1], it.y@[k], it.y@[k + 1], c[i][k][j], c[i][k + 1][j], c[i + 1][k][j], c[i + 1][k + 1][j], x, y)
}
/// three calc_frac contracts compose to the bilinear contract
pub proof fn lemma_bil_from_lin(z: T, z1: T, z2: T, x1: T, x2: T, y1: T, y2: T, z11: T, z12: T, z21: T, z22: T, x: T, y: T)
    requires lin_ok(z1, x1, z11, x2, z21, x), lin_ok(z2, x1, z12, x2, z22, x), lin_ok(z, y1, z1, y2, z2, y)
    ensures bil_ok(z, x1, x2, y1, y2, z11, z12, z21, z22, x, y)
{
}
