// ---- specs/spline_lemmas.rs : what the evaluation contract means under A_exact
pub open spec fn shift_by(x: real, k: int, p: real) -> real { x - (k as real) * p }
/// C07: the wrapped argument is the query shifted by an integer number of periods into [x0, xn)
pub proof fn lemma_wrap(x: T, x0: T, xn: T)
    requires is_fin(x), is_fin(x0), is_fin(xn), x0@ < xn@
    ensures ({
        let w = wrap_term(x, x0, xn);
        &&& is_fin(w)
        &&& exists|k: int| w@ == #[trigger] shift_by(x@, k, xn@ - x0@)
        &&& x0@ <= w@ < xn@
        &&& w.deps@ =~= x.deps@.union(x0.deps@).union(xn.deps@.union(x0.deps@)).union(x0.deps@)
    })
{
    broadcast use A_exact;
    let p = xn@ - x0@;
    ax_exact_rem_euclid(x@ - x0@, p);
    let k = euclid_k(x@ - x0@, p);
    let w = wrap_term(x, x0, xn);
    assert(fl_sub(x@, x0@) == x@ - x0@);
    assert(fl_sub(xn@, x0@) == p);
    assert(w@ == fl_rem_euclid(x@ - x0@, p) + x0@);
    assert(w@ == shift_by(x@, k, xn@ - x0@));
}
/// C02 (evaluation part): for ANY coefficients a, b the piece passes through both of its data points
/// and is one cubic polynomial in the query (coefficients independent of the query)
pub proof fn thm_spline_piece(st: &CubicSplineStrategy, it: &Interp1D<CubicSplineStrategy>, i: int, xq: T, j: int, r: T)
    requires it.wf(), coef_wf(&st.a, it), coef_wf(&st.b, it), 0 <= i <= it.x@.len() - 2, 0 <= j < it.lanes(), spline_ok(r, st, it, i, xq, j)
    ensures ({
        let (xl, xr, yl, yr, a, b) = (it.x@[i]@, it.x@[i + 1]@, it.data.rows@[i][j]@, it.data.rows@[i + 1][j]@, st.a.rows@[i][j]@, st.b.rows@[i][j]@);
        let v = r@;
        &&& xl < xr
        &&& v == herm(xl, xr, yl, yr, a, b, xq@)
        &&& v == herm_c0(xl, xr, yl, yr, a, b) + herm_c1(xl, xr, yl, yr, a, b) * (xq@ - xl)
                 + herm_c2(xl, xr, yl, yr, a, b) * (xq@ - xl) * (xq@ - xl) + herm_c3(xl, xr, yl, yr, a, b) * (xq@ - xl) * (xq@ - xl) * (xq@ - xl)
        &&& xq@ == xl ==> v == yl
        &&& xq@ == xr ==> v == yr
    })
{
    let (xl, xr, yl, yr, a, b) = (it.x@[i]@, it.x@[i + 1]@, it.data.rows@[i][j]@, it.data.rows@[i + 1][j]@, st.a.rows@[i][j]@, st.b.rows@[i][j]@);
    assert(is_fin(it.x@[i]) && is_fin(it.x@[i + 1]));
    assert(xl < xr) by { assert(it.x@[i]@ < it.x@[i + 1]@); }
    L_herm_is_cubic(xl, xr, yl, yr, a, b, xq@);
    L_herm_at_left(xl, xr, yl, yr, a, b);
    L_herm_at_right(xl, xr, yl, yr, a, b);
}
/// C08 (spline evaluation): lane j of the result depends only on the query, the two bracketing knots,
/// the two bracketing data values of lane j and the two coefficients of (piece i, lane j)
pub proof fn thm_C08_spline_eval(st: &CubicSplineStrategy, it: &Interp1D<CubicSplineStrategy>, i: int, xq: T, j: int, r: T)
    requires it.wf(), coef_wf(&st.a, it), coef_wf(&st.b, it), 0 <= i <= it.x@.len() - 2, 0 <= j < it.lanes(), spline_ok(r, st, it, i, xq, j),
        xq.deps@.subset_of(set![Cell::Query, Cell::Axis(0), Cell::Axis(it.x@.len() - 1)]),
        forall|i: int| 0 <= i < it.x@.len() ==> (#[trigger] it.x@[i]).deps@ =~= set![Cell::Axis(i)],
        forall|i: int, j: int| 0 <= i < it.data.rows@.len() && 0 <= j < it.data.rows@[i].len() ==> (#[trigger] it.data.rows@[i][j]).deps@ =~= set![Cell::Data(i, 0, j)],
        forall|i: int, j: int| 0 <= i < st.a.rows@.len() && 0 <= j < st.a.rows@[i].len() ==> (#[trigger] st.a.rows@[i][j]).deps@ =~= set![Cell::CoefA(i, j)],
        forall|i: int, j: int| 0 <= i < st.b.rows@.len() && 0 <= j < st.b.rows@[i].len() ==> (#[trigger] st.b.rows@[i][j]).deps@ =~= set![Cell::CoefB(i, j)],
    ensures r.deps@.subset_of(set![Cell::Query, Cell::Axis(0), Cell::Axis(it.x@.len() - 1), Cell::Axis(i), Cell::Axis(i + 1),
                Cell::Data(i, 0, j), Cell::Data(i + 1, 0, j), Cell::CoefA(i, j), Cell::CoefB(i, j)])
{
    assert(it.data.rows@[i].len() == it.data.rows@[0].len());
    assert(it.data.rows@[i + 1].len() == it.data.rows@[0].len());
    assert(st.a.rows@[i].len() == it.data.rows@[0].len());
    assert(st.b.rows@[i].len() == it.data.rows@[0].len());
}
