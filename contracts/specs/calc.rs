// ---- specs/calc.rs : CubicSpline::calc_coefficients for the whole-set end conditions (NotAKnot / Natural / Clamped)
pub open spec fn bc_whole(b: BoundaryCondition) -> bool { b is NotAKnot || b is Natural || b is Clamped }
pub open spec fn bc_side(b: BoundaryCondition) -> SingleBoundary<T> {
    match b { BoundaryCondition::Natural => SingleBoundary::Natural, BoundaryCondition::Clamped => SingleBoundary::Clamped, _ => SingleBoundary::NotAKnot }
}
/// the paths the contract speaks about: a whole-set condition; the 3-point NotAKnot parabola is not covered
pub open spec fn calc_covered(b: BoundaryCondition, n: int) -> bool { bc_whole(b) && !(n == 3 && b is NotAKnot) }
/// coefficient pair of piece i, lane j, from the slopes the system defines
pub open spec fn coef_from_system(a: T, b: T, x: Seq<T>, y: Seq<Seq<T>>, s: SingleBoundary<T>, n: int, nl: int, i: int, j: int) -> bool {
    &&& a@ == aK(x[i]@, x[i + 1]@, y[i][j]@, y[i + 1][j]@, ksys(x, y, s, s, n, nl, j, i))
    &&& b@ == bK(x[i]@, x[i + 1]@, y[i][j]@, y[i + 1][j]@, ksys(x, y, s, s, n, nl, j, i + 1))
    &&& is_fin(a) && is_fin(b)
}
