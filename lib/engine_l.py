"""Engine L: algebraic lemmas over the reals, written once in a small DSL, discharged as
stand-alone QF_NRA queries (hyps AND NOT goal must be unsat) by z3 and cvc5, and emitted for
Verus as named external_body axioms printed from the same AST."""
import os
import re
import subprocess
import time

HERE = os.path.dirname(os.path.abspath(__file__))
VERIF = os.path.dirname(HERE)

TOK = re.compile(r"\s*(==>|==|!=|<=|>=|&&|\|\||[-+*/()<>!,]|[A-Za-z_][A-Za-z0-9_]*|[0-9]+(?:\.[0-9]+)?)")


def tokenize(s):
    out, i = [], 0
    s = s.strip()
    while i < len(s):
        m = TOK.match(s, i)
        if not m:
            raise ValueError("lemma DSL: cannot tokenize %r at %d" % (s, i))
        out.append(m.group(1))
        i = m.end()
    return out


class P:
    """precedence climbing: ==> < || < && < comparison < +,- < *,/ < unary"""

    def __init__(self, toks):
        self.t, self.i = toks, 0

    def peek(self):
        return self.t[self.i] if self.i < len(self.t) else None

    def eat(self, x=None):
        tok = self.peek()
        if x is not None and tok != x:
            raise ValueError("lemma DSL: expected %r got %r" % (x, tok))
        self.i += 1
        return tok

    def expr(self):
        l = self.orx()
        if self.peek() == "==>":
            self.eat()
            r = self.expr()
            return ("=>", l, r)
        return l

    def orx(self):
        l = self.andx()
        while self.peek() == "||":
            self.eat()
            l = ("or", l, self.andx())
        return l

    def andx(self):
        l = self.cmp()
        while self.peek() == "&&":
            self.eat()
            l = ("and", l, self.cmp())
        return l

    def cmp(self):
        l = self.add()
        if self.peek() in ("==", "!=", "<", "<=", ">", ">="):
            op = self.eat()
            r = self.add()
            return (op, l, r)
        return l

    def add(self):
        l = self.mul()
        while self.peek() in ("+", "-"):
            op = self.eat()
            l = (op, l, self.mul())
        return l

    def mul(self):
        l = self.un()
        while self.peek() in ("*", "/"):
            op = self.eat()
            l = (op, l, self.un())
        return l

    def un(self):
        if self.peek() == "-":
            self.eat()
            return ("neg", self.un())
        if self.peek() == "!":
            self.eat()
            return ("not", self.un())
        return self.atom()

    def atom(self):
        tok = self.eat()
        if tok == "(":
            e = self.expr()
            self.eat(")")
            return e
        if re.match(r"^[0-9]", tok):
            return ("num", tok)
        if self.peek() == "(":   # function application (defined by `def`)
            self.eat("(")
            args = []
            if self.peek() != ")":
                args.append(self.expr())
                while self.peek() == ",":
                    self.eat()
                    args.append(self.expr())
            self.eat(")")
            return ("app", tok, args)
        return ("var", tok)


def parse_expr(s):
    p = P(tokenize(s))
    e = p.expr()
    if p.peek() is not None:
        raise ValueError("lemma DSL: trailing tokens in %r" % s)
    return e


def subst(e, env):
    k = e[0]
    if k == "var":
        return env.get(e[1], e)
    if k == "num":
        return e
    if k == "app":
        return ("app", e[1], [subst(a, env) for a in e[2]])
    return (k,) + tuple(subst(a, env) for a in e[1:])


def inline(e, defs):
    k = e[0]
    if k in ("var", "num"):
        return e
    if k == "app":
        if e[1] not in defs:
            raise ValueError("lemma DSL: unknown function %s" % e[1])
        params, body = defs[e[1]]
        args = [inline(a, defs) for a in e[2]]
        if len(args) != len(params):
            raise ValueError("lemma DSL: arity of %s" % e[1])
        return inline(subst(body, dict(zip(params, args))), defs)
    return (k,) + tuple(inline(a, defs) for a in e[1:])


def to_smt(e):
    k = e[0]
    if k == "var":
        return e[1]
    if k == "num":
        return e[1] if "." in e[1] else e[1] + ".0"
    if k == "neg":
        return "(- %s)" % to_smt(e[1])
    if k == "not":
        return "(not %s)" % to_smt(e[1])
    if k == "!=":
        return "(not (= %s %s))" % (to_smt(e[1]), to_smt(e[2]))
    op = {"==": "=", "=>": "=>"}.get(k, k)
    return "(%s %s %s)" % (op, to_smt(e[1]), to_smt(e[2]))


def to_verus(e):
    k = e[0]
    if k == "var":
        return e[1]
    if k == "num":
        return e[1] + "real"
    if k == "neg":
        return "(-%s)" % to_verus(e[1])
    if k == "not":
        return "(!%s)" % to_verus(e[1])
    if k == "app":
        return "%s(%s)" % (e[1], ", ".join(to_verus(a) for a in e[2]))
    op = {"=>": "==>", "and": "&&", "or": "||"}.get(k, k)
    return "(%s %s %s)" % (to_verus(e[1]), op, to_verus(e[2]))


def parse_file(path):
    lemmas, defs = [], {}
    imported = set()
    cur = None
    for raw in open(path).read().split("\n"):
        ln = raw.strip()
        if not ln or ln.startswith("#"):
            continue
        cmd, _, rest = ln.partition(" ")
        rest = rest.strip()
        if cmd == "use":
            _, d2 = parse_file(os.path.join(os.path.dirname(path), rest))
            for k2, v2 in d2.items():
                defs[k2] = v2
                imported.add(k2)
        elif cmd == "def":
            # def name(a, b) = expr
            m = re.match(r"^([A-Za-z_][A-Za-z0-9_]*)\(([^)]*)\)\s*=\s*(.*)$", rest)
            if not m:
                raise ValueError("lemma DSL: bad def %r" % rest)
            defs[m.group(1)] = ([x.strip() for x in m.group(2).split(",") if x.strip()], parse_expr(m.group(3)))
        elif cmd == "lemma":
            cur = dict(name=rest, vars=[], hyps=[], goal=None, file=os.path.basename(path))
            lemmas.append(cur)
        elif cmd == "vars":
            cur["vars"] += rest.split()
        elif cmd == "hyp":
            cur["hyps"].append(parse_expr(rest))
        elif cmd == "goal":
            cur["goal"] = parse_expr(rest)
        else:
            raise ValueError("lemma DSL: unknown line %r" % ln)
    parse_file.imported = imported
    return lemmas, defs


def smt_query(lem, defs):
    lines = ["(set-logic QF_NRA)"]
    for v in lem["vars"]:
        lines.append("(declare-const %s Real)" % v)
    for h in lem["hyps"]:
        lines.append("(assert %s)" % to_smt(inline(h, defs)))
    lines.append("(assert (not %s))" % to_smt(inline(lem["goal"], defs)))
    lines.append("(check-sat)")
    return "\n".join(lines) + "\n"


def verus_axioms(path):
    """text of the external_body proof fns for every lemma of a .lem file (defs become open spec fns)"""
    lemmas, defs = parse_file(path)
    out = ["// ---- lemma DSL import: %s — each fn below is discharged outside Verus as QF_NRA (engine L)" % os.path.basename(path)]
    imported = set(parse_file.imported)
    for name, (params, body) in defs.items():
        if name in imported:
            continue
        out.append("pub open spec fn %s(%s) -> real { %s }" % (name, ", ".join("%s: real" % p for p in params), to_verus(body)))
    for lem in lemmas:
        out.append("#[verifier::external_body]")
        out.append("pub proof fn L_%s(%s)" % (lem["name"], ", ".join("%s: real" % v for v in lem["vars"])))
        if lem["hyps"]:
            out.append("    requires " + ", ".join(to_verus(h) for h in lem["hyps"]) + ",")
        out.append("    ensures " + to_verus(lem["goal"]) + ",")
        out.append("{}")
    return "\n".join(out)


SOLVERS = [("z3", ["z3", "-smt2", "-T:60"]), ("cvc5", ["cvc5", "--lang=smt2", "--tlimit=20000"]), ("z3-new", ["z3-new", "-smt2", "-T:60"])]


def solve(query_path, which):
    for nm, cmd in SOLVERS:
        if nm == which:
            t0 = time.time()
            try:
                p = subprocess.run(cmd + [query_path], capture_output=True, text=True, timeout=90)
                ans = (p.stdout.strip().split("\n") or ["?"])[0].strip()
            except subprocess.TimeoutExpired:
                ans = "timeout"
            return ans, time.time() - t0
    return "nosolver", 0.0


def to_sympy(e):
    k = e[0]
    if k == "var":
        return e[1]
    if k == "num":
        return "Rational('%s')" % e[1]
    if k == "neg":
        return "(-%s)" % to_sympy(e[1])
    return "(%s %s %s)" % (to_sympy(e[1]), k, to_sympy(e[2]))


def sympy_equalities(items):
    """items: list of (key, vars, lhs, rhs) — exact normalisation in Q(vars) with sympy (python3-vt)"""
    if not items:
        return {}
    prog = ["import sympy, json", "from sympy import Rational", "out = {}"]
    for key, vs, l, r in items:
        prog.append("%s = sympy.symbols('%s')" % (", ".join(vs) + ("," if len(vs) == 1 else ""), " ".join(vs)))
        prog.append("out[%r] = bool(sympy.cancel(sympy.together((%s) - (%s))) == 0)" % (key, l, r))
    prog.append("print(json.dumps(out))")
    try:
        p = subprocess.run(["python3-vt", "-c", "\n".join(prog)], capture_output=True, text=True, timeout=120)
        import json
        return json.loads(p.stdout.strip().split("\n")[-1])
    except Exception:
        return {}


def run(files, pid, build):
    """files: list of .lem files (relative to contracts/lemmas). A lemma is discharged when at least two
    independent back ends (z3 4.8, z3 5.1, cvc5; for equalities also exact normalisation in Q(vars) by sympy)
    agree on unsat / identity and none answers sat."""
    from concurrent.futures import ThreadPoolExecutor
    o = dict(engine="L", name=",".join(files), bounded=False, failures=[], undecided=[], obligations=0, discharged=0, samples=[], cmds=[], solver_ms=0.0)
    qdir = os.path.join(build, "lemmas-%s" % pid)
    os.makedirs(qdir, exist_ok=True)
    jobs = []
    for f in files:
        path = os.path.join(VERIF, "contracts", "lemmas", f)
        try:
            lemmas, defs = parse_file(path)
        except Exception as e:
            o["undecided"].append("lemma file %s: %s" % (f, e))
            continue
        for lem in lemmas:
            q = os.path.join(qdir, "%s__%s.smt2" % (f.replace(".lem", ""), lem["name"]))
            open(q, "w").write(smt_query(lem, defs))
            jobs.append((f, lem, defs, q))
    eqs = []
    for f, lem, defs, q in jobs:
        g = inline(lem["goal"], defs)
        if g[0] == "==":
            try:
                eqs.append(("%s:%s" % (f, lem["name"]), lem["vars"], to_sympy(g[1]), to_sympy(g[2])))
            except Exception:
                pass

    def one(job):
        f, lem, defs, q = job
        ans = {}
        for sname in ("z3", "z3-new"):
            ans[sname] = solve(q, sname)
        if [a for a, _ in ans.values()].count("unsat") < 2:
            ans["cvc5"] = solve(q, "cvc5")
        return ans

    with ThreadPoolExecutor(max_workers=8) as ex:
        futs = [ex.submit(one, j) for j in jobs]
        sym = sympy_equalities(eqs)
        results = [fu.result() for fu in futs]
    for (f, lem, defs, q), answers in zip(jobs, results):
        o["obligations"] += 1
        key = "%s:%s" % (f, lem["name"])
        verdicts = [a for a, _ in answers.values()]
        o["solver_ms"] += sum(dt for _, dt in answers.values()) * 1000
        n_unsat = verdicts.count("unsat") + (1 if sym.get(key) else 0)
        n_sat = verdicts.count("sat")
        sample = dict(obligation="L:" + key, backends={k: dict(answer=v[0], s=round(v[1], 3)) for k, v in answers.items()})
        if key in sym:
            sample["backends"]["sympy-field"] = dict(answer="identity" if sym[key] else "not-identical")
        if n_sat:
            # a lemma does not depend on /repo: `sat` means the contract vocabulary is wrong -> undecided, never an alarm
            o["undecided"].append("lemma %s is refuted (sat) — contract vocabulary error" % key)
            sample["discharged"] = False
        elif n_unsat >= 2:
            o["discharged"] += 1
            sample["discharged"] = True
        else:
            o["undecided"].append("lemma %s not settled by two back ends: %s" % (key, {k: v[0] for k, v in answers.items()}))
            sample["discharged"] = False
        o["samples"].append(sample)
    o["cmds"] = ["z3 -smt2 -T:60 <query.smt2>", "z3-new -smt2 -T:60 <query.smt2>", "cvc5 --lang=smt2 --tlimit=20000 <query.smt2>", "python3-vt sympy.cancel(lhs-rhs)==0"]
    return o
