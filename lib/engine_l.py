"""Engine L: algebraic lemmas over the reals, written once in a small DSL, discharged as
stand-alone QF_NRA queries (hyps AND NOT goal must be unsat) by z3 and cvc5, and emitted for
Verus as named external_body axioms printed from the same AST."""
import os
import re
import subprocess
import time

HERE = os.path.dirname(os.path.abspath(__file__))
VERIF = os.path.dirname(HERE)

TOK = re.compile(r"\s*(==>|==|!=|<=|>=|&&|\|\||[-+*/()<>!,]|[A-Za-z_][A-Za-z0-9_]*|[0-9]+(?:\.[0-9]+)?)")


def tokenize(s):
    out, i = [], 0
    s = s.strip()
    while i < len(s):
        m = TOK.match(s, i)
        if not m:
            raise ValueError("lemma DSL: cannot tokenize %r at %d" % (s, i))
        out.append(m.group(1))
        i = m.end()
    return out


class P:
    """precedence climbing: ==> < || < && < comparison < +,- < *,/ < unary"""

    def __init__(self, toks):
        self.t, self.i = toks, 0

    def peek(self):
        return self.t[self.i] if self.i < len(self.t) else None

    def eat(self, x=None):
        tok = self.peek()
        if x is not None and tok != x:
            raise ValueError("lemma DSL: expected %r got %r" % (x, tok))
        self.i += 1
        return tok

    def expr(self):
        l = self.orx()
        if self.peek() == "==>":
            self.eat()
            r = self.expr()
            return ("=>", l, r)
        return l

    def orx(self):
        l = self.andx()
        while self.peek() == "||":
            self.eat()
            l = ("or", l, self.andx())
        return l

    def andx(self):
        l = self.cmp()
        while self.peek() == "&&":
            self.eat()
            l = ("and", l, self.cmp())
        return l

    def cmp(self):
        l = self.add()
        if self.peek() in ("==", "!=", "<", "<=", ">", ">="):
            op = self.eat()
            r = self.add()
            return (op, l, r)
        return l

    def add(self):
        l = self.mul()
        while self.peek() in ("+", "-"):
            op = self.eat()
            l = (op, l, self.mul())
        return l

    def mul(self):
        l = self.un()
        while self.peek() in ("*", "/"):
            op = self.eat()
            l = (op, l, self.un())
        return l

    def un(self):
        if self.peek() == "-":
            self.eat()
            return ("neg", self.un())
        if self.peek() == "!":
            self.eat()
            return ("not", self.un())
        return self.atom()

    def atom(self):
        tok = self.eat()
        if tok == "(":
            e = self.expr()
            self.eat(")")
            return e
        if re.match(r"^[0-9]", tok):
            return ("num", tok)
        if self.peek() == "(":   # function application (defined by `def`)
            self.eat("(")
            args = []
            if self.peek() != ")":
                args.append(self.expr())
                while self.peek() == ",":
                    self.eat()
                    args.append(self.expr())
            self.eat(")")
            return ("app", tok, args)
        return ("var", tok)


def parse_expr(s):
    p = P(tokenize(s))
    e = p.expr()
    if p.peek() is not None:
        raise ValueError("lemma DSL: trailing tokens in %r" % s)
    return e


def subst(e, env):
    k = e[0]
    if k == "var":
        return env.get(e[1], e)
    if k == "num":
        return e
    if k == "app":
        return ("app", e[1], [subst(a, env) for a in e[2]])
    return (k,) + tuple(subst(a, env) for a in e[1:])


def inline(e, defs):
    k = e[0]
    if k in ("var", "num"):
        return e
    if k == "app":
        if e[1] not in defs:
            raise ValueError("lemma DSL: unknown function %s" % e[1])
        params, body = defs[e[1]]
        args = [inline(a, defs) for a in e[2]]
        if len(args) != len(params):
            raise ValueError("lemma DSL: arity of %s" % e[1])
        return inline(subst(body, dict(zip(params, args))), defs)
    return (k,) + tuple(inline(a, defs) for a in e[1:])


def to_smt(e):
    k = e[0]
    if k == "var":
        return e[1]
    if k == "num":
        return e[1] if "." in e[1] else e[1] + ".0"
    if k == "neg":
        return "(- %s)" % to_smt(e[1])
    if k == "not":
        return "(not %s)" % to_smt(e[1])
    if k == "!=":
        return "(not (= %s %s))" % (to_smt(e[1]), to_smt(e[2]))
    op = {"==": "=", "=>": "=>"}.get(k, k)
    return "(%s %s %s)" % (op, to_smt(e[1]), to_smt(e[2]))


def to_verus(e):
    k = e[0]
    if k == "var":
        return e[1]
    if k == "num":
        return e[1] + "real"
    if k == "neg":
        return "(-%s)" % to_verus(e[1])
    if k == "not":
        return "(!%s)" % to_verus(e[1])
    if k == "app":
        return "%s(%s)" % (e[1], ", ".join(to_verus(a) for a in e[2]))
    op = {"=>": "==>", "and": "&&", "or": "||"}.get(k, k)
    return "(%s %s %s)" % (to_verus(e[1]), op, to_verus(e[2]))


def parse_file(path):
    lemmas, defs = [], {}
    cur = None
    for raw in open(path).read().split("\n"):
        ln = raw.strip()
        if not ln or ln.startswith("#"):
            continue
        cmd, _, rest = ln.partition(" ")
        rest = rest.strip()
        if cmd == "def":
            # def name(a, b) = expr
            m = re.match(r"^([A-Za-z_][A-Za-z0-9_]*)\(([^)]*)\)\s*=\s*(.*)$", rest)
            if not m:
                raise ValueError("lemma DSL: bad def %r" % rest)
            defs[m.group(1)] = ([x.strip() for x in m.group(2).split(",") if x.strip()], parse_expr(m.group(3)))
        elif cmd == "lemma":
            cur = dict(name=rest, vars=[], hyps=[], goal=None, file=os.path.basename(path))
            lemmas.append(cur)
        elif cmd == "vars":
            cur["vars"] += rest.split()
        elif cmd == "hyp":
            cur["hyps"].append(parse_expr(rest))
        elif cmd == "goal":
            cur["goal"] = parse_expr(rest)
        else:
            raise ValueError("lemma DSL: unknown line %r" % ln)
    return lemmas, defs


def smt_query(lem, defs):
    lines = ["(set-logic QF_NRA)"]
    for v in lem["vars"]:
        lines.append("(declare-const %s Real)" % v)
    for h in lem["hyps"]:
        lines.append("(assert %s)" % to_smt(inline(h, defs)))
    lines.append("(assert (not %s))" % to_smt(inline(lem["goal"], defs)))
    lines.append("(check-sat)")
    return "\n".join(lines) + "\n"


def verus_axioms(path):
    """text of the external_body proof fns for every lemma of a .lem file (defs become open spec fns)"""
    lemmas, defs = parse_file(path)
    out = ["// ---- lemma DSL import: %s — each fn below is discharged outside Verus as QF_NRA (engine L)" % os.path.basename(path)]
    for name, (params, body) in defs.items():
        out.append("pub open spec fn %s(%s) -> real { %s }" % (name, ", ".join("%s: real" % p for p in params), to_verus(body)))
    for lem in lemmas:
        out.append("#[verifier::external_body]")
        out.append("pub proof fn L_%s(%s)" % (lem["name"], ", ".join("%s: real" % v for v in lem["vars"])))
        if lem["hyps"]:
            out.append("    requires " + ", ".join(to_verus(h) for h in lem["hyps"]) + ",")
        out.append("    ensures " + to_verus(lem["goal"]) + ",")
        out.append("{}")
    return "\n".join(out)


SOLVERS = [("z3", ["z3", "-smt2", "-T:60"]), ("cvc5", ["cvc5", "--lang=smt2", "--tlimit=60000"]), ("z3-new", ["z3-new", "-smt2", "-T:60"])]


def solve(query_path, which):
    for nm, cmd in SOLVERS:
        if nm == which:
            t0 = time.time()
            try:
                p = subprocess.run(cmd + [query_path], capture_output=True, text=True, timeout=90)
                ans = (p.stdout.strip().split("\n") or ["?"])[0].strip()
            except subprocess.TimeoutExpired:
                ans = "timeout"
            return ans, time.time() - t0
    return "nosolver", 0.0


def run(files, pid, build):
    """files: list of .lem files (relative to contracts/lemmas). Every lemma must be unsat on z3 and cvc5
    (z3-new breaks a tie when one of them answers unknown/timeout)."""
    o = dict(engine="L", name=",".join(files), bounded=False, failures=[], undecided=[], obligations=0, discharged=0, samples=[], cmds=[], solver_ms=0.0)
    qdir = os.path.join(build, "lemmas")
    os.makedirs(qdir, exist_ok=True)
    for f in files:
        path = os.path.join(VERIF, "contracts", "lemmas", f)
        try:
            lemmas, defs = parse_file(path)
        except Exception as e:
            o["undecided"].append("lemma file %s: %s" % (f, e))
            continue
        for lem in lemmas:
            o["obligations"] += 1
            q = os.path.join(qdir, "%s__%s.smt2" % (f.replace(".lem", ""), lem["name"]))
            open(q, "w").write(smt_query(lem, defs))
            answers = {}
            for s in ("z3", "cvc5"):
                a, dt = solve(q, s)
                answers[s] = (a, dt)
                o["solver_ms"] += dt * 1000
            verdicts = [a for a, _ in answers.values()]
            if any(a not in ("unsat", "sat") for a in verdicts):
                a, dt = solve(q, "z3-new")
                answers["z3-new"] = (a, dt)
                o["solver_ms"] += dt * 1000
                verdicts = [a for a, _ in answers.values()]
            n_unsat = verdicts.count("unsat")
            n_sat = verdicts.count("sat")
            sample = dict(obligation="L:%s:%s" % (f, lem["name"]), backends={k: dict(answer=v[0], s=round(v[1], 3)) for k, v in answers.items()})
            if n_sat:
                # a lemma does not depend on /repo: `sat` means the contract vocabulary is wrong -> undecided, never an alarm
                o["undecided"].append("lemma %s:%s is refuted (sat) — contract vocabulary error" % (f, lem["name"]))
                sample["discharged"] = False
            elif n_unsat >= 2:
                o["discharged"] += 1
                sample["discharged"] = True
            else:
                o["undecided"].append("lemma %s:%s not settled by two back ends: %s" % (f, lem["name"], {k: v[0] for k, v in answers.items()}))
                sample["discharged"] = False
            o["samples"].append(sample)
    o["cmds"] = ["z3 -smt2 <query>", "cvc5 --lang=smt2 <query>"]
    return o
