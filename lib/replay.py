"""Replay support: (1) directed witness search on the REAL crate after a Verus obligation failed,
(2) `check <ID> --replay <file>`: re-decide the recorded obligation against the current working tree."""
import json
import os
import subprocess
import sys

HERE = os.path.dirname(os.path.abspath(__file__))
VERIF = os.path.dirname(HERE)
BUILD = os.path.join(VERIF, "build")

BUILDER_UNITS = ("Interp1DBuilder::build", "Interp2DBuilder::build")


def _runner(repo):
    import engine_s
    return engine_s.build_runner(repo, BUILD)


def search_witness(pid, f, repo, seed):
    """returns a dict describing a concrete failing input on the real code, or None"""
    unit = f.get("unit") or ""
    binary, err = _runner(repo)
    if binary is None:
        return None
    if unit in BUILDER_UNITS:
        p = subprocess.run([binary], input="builder\n", capture_output=True, text=True, timeout=300)
        for ln in p.stdout.split("\n"):
            if ln.strip():
                d = json.loads(ln)
                for c in d.get("checks", []):
                    if not c["ok"]:
                        return dict(how="decision-table enumeration through the public API of the real crate (f64)", case=c["name"], observed=c["detail"])
        return None
    p = subprocess.run([binary], input="probe unit=%s\n" % unit, capture_output=True, text=True, timeout=300)
    for ln in p.stdout.split("\n"):
        if ln.strip().startswith("{"):
            d = json.loads(ln)
            if d.get("found"):
                return dict(how="directed search on the real crate at f64 against the property's oracle (symexec probe)", input=d["input"], expected=d["expected"], observed=d["observed"])
    return None


def replay(pid, path, repo):
    rec = json.load(open(path))
    print("replaying %s: obligation %s" % (path, rec.get("obligation")))
    wit = rec.get("failing_input")
    if wit:
        print("recorded failing input: %s" % json.dumps(wit)[:1500])
    # a recorded scenario of the bounded engine is re-run on its own
    if isinstance(wit, dict) and wit.get("scenario"):
        binary, err = _runner(repo)
        if binary:
            p = subprocess.run([binary], input=wit["scenario"] + "\n", capture_output=True, text=True, timeout=300)
            print("scenario `%s` re-run on the current tree: %d bytes of record" % (wit["scenario"], len(p.stdout)))
    if isinstance(wit, dict) and wit.get("input") and rec.get("engine") == "V":
        f = dict(unit=(rec.get("obligation", "").split(":") + ["", ""])[1] if False else None)
    # re-decide the property and report whether the same obligation still fails
    env = dict(os.environ, VERIF_REPO=repo)
    p = subprocess.run([os.path.join(VERIF, "bin", "check"), pid, "--tier", rec.get("tier", "quick")], capture_output=True, text=True, env=env)
    sys.stdout.write(p.stdout)
    want = rec.get("obligation", "").replace(" ", "_")
    again = any(want in ln for ln in p.stdout.split("\n") if ln.startswith("VIOLATION"))
    print("REPLAY: obligation %s on the current tree" % ("fails again" if again else "does not fail"))
    return 1 if again else 0
