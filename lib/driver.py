"""Driver: runs the engines a property is decided by, names failed obligations, writes replay
files and the evidence file, prints VIOLATION / KNOWN-FINDING lines."""
import json
import os
import re
import sys
import time
import hashlib

HERE = os.path.dirname(os.path.abspath(__file__))
VERIF = os.path.dirname(HERE)
BUILD = os.path.join(VERIF, "build")


def load_prop(pid):
    p = os.path.join(VERIF, "contracts", "props", pid + ".json")
    if not os.path.exists(p):
        return None
    return json.load(open(p))


def load_known():
    p = os.path.join(VERIF, "known_findings.json")
    if os.path.exists(p):
        return json.load(open(p))
    return {"findings": [], "fixed": []}


def tier_list(x, tier):
    """config values may be {"quick": [...], "thorough": [...]} or a plain list"""
    if isinstance(x, dict) and ("quick" in x or "thorough" in x):
        if tier == "thorough":
            return list(x.get("quick", [])) + list(x.get("thorough", []))
        return list(x.get("quick", []))
    return x


EVIDENCE_REPO = ["/repo"]


def main(pid, tier, repo, seed, replay):
    t0 = time.time()
    EVIDENCE_REPO[0] = repo
    prop = load_prop(pid)
    if prop is None:
        print("check: no configuration for property %s (not claimed)" % pid)
        return 2
    if replay:
        import replay as rp
        return rp.replay(pid, replay, repo)
    os.makedirs(BUILD, exist_ok=True)
    os.makedirs(os.path.join(VERIF, "evidence"), exist_ok=True)
    os.makedirs(os.path.join(VERIF, "replay"), exist_ok=True)

    outcomes = []      # one per engine run
    if prop.get("v"):
        import engine_v
        from concurrent.futures import ThreadPoolExecutor
        progs = [prog for prog in prop["v"] if not (prog.get("tier") == "thorough" and tier != "thorough")]
        with ThreadPoolExecutor(max_workers=8) as ex:
            outcomes.extend(ex.map(lambda prog: run_v(engine_v, repo, prog, pid), progs))
    if prop.get("l"):
        import engine_l
        outcomes.append(engine_l.run(tier_list(prop["l"], tier), pid, BUILD))
    if prop.get("s"):
        import engine_s
        outcomes.append(engine_s.run(repo, prop["s"], pid, tier, seed, BUILD))
    if prop.get("k"):
        import engine_k
        outcomes.append(engine_k.run(repo, prop["k"], pid, tier, seed, BUILD))
    if prop.get("r"):
        import engine_r
        outcomes.append(engine_r.run(repo, prop["r"], pid, tier, seed, BUILD))

    # ---- verdict
    known = load_known()
    failures, undecided = [], []
    for o in outcomes:
        failures.extend(o.get("failures", []))
        if o.get("undecided"):
            undecided.extend("%s: %s" % (o["engine"], u) for u in o["undecided"])
    violations, known_hits = [], []
    seen = set()
    for f in failures:
        if f["obligation"] in seen:
            continue
        seen.add(f["obligation"])
        kf = match_known(known, pid, f)
        if kf:
            known_hits.append((kf, f))
        else:
            violations.append(f)

    rc = 0
    for kf, f in known_hits:
        print("KNOWN-FINDING: property=%s %s (%s)" % (pid, kf["what"], f["obligation"]))
    replay_paths = []
    if violations:
        rc = 1
        for n, f in enumerate(violations):
            rdir = os.path.join(VERIF, "replay") if os.path.abspath(repo) == "/repo" else os.path.join(BUILD, "replay-scratch")
            os.makedirs(rdir, exist_ok=True)
            path = os.path.join(rdir, "%s-%s-%d.json" % (pid, tier, n))
            wit = f.get("witness")
            if wit is None and f.get("engine") == "V":
                try:
                    import replay as rp
                    wit = rp.search_witness(pid, f, repo, seed)
                except Exception as e:  # the search is best effort
                    wit = None
                    f["witness_search_error"] = repr(e)
            json.dump(dict(property=pid, obligation=f["obligation"], engine=f.get("engine"), message=f.get("message"),
                           clause=f.get("clause"), repo_location=f.get("repo_location"),
                           contract=dict(file=f.get("contract_file"), line=f.get("contract_line")),
                           verifier_output=f.get("verus_output") or f.get("output"),
                           failing_input=wit, tier=tier), open(path, "w"), indent=1)
            replay_paths.append(path)
            tail = "" if wit else " no-failing-input-found"
            if n >= 8:
                if n == 8:
                    print("... %d more violations of property %s (replay files written, see evidence)" % (len(violations) - 8, pid))
                continue
            print("VIOLATION property=%s replay=%s obligation=%s%s" % (pid, path, f["obligation"].replace(" ", "_"), tail))
    elif undecided:
        rc = 2
        for u in undecided:
            print("UNDECIDED property=%s %s" % (pid, u))

    write_evidence(pid, prop, tier, seed, outcomes, violations, known_hits, undecided, time.time() - t0)
    if rc == 0:
        print("OK property=%s tier=%s obligations=%d discharged=%d bounded_checks=%d wall=%.1fs" % (
            pid, tier, sum(o.get("obligations", 0) for o in outcomes if not o.get("bounded")),
            sum(o.get("discharged", 0) for o in outcomes if not o.get("bounded")),
            sum(o.get("obligations", 0) for o in outcomes if o.get("bounded")), time.time() - t0))
    return rc


def match_known(known, pid, f):
    for kf in known.get("findings", []):
        if kf.get("property") == pid and kf.get("status", "open") == "open" and kf["match"] in f["obligation"]:
            return kf
    return None


def run_v(engine_v, repo, prog, pid):
    # one directory per property and repo path: concurrent checks never share generated files
    import hashlib
    bdir = os.path.join(BUILD, "v-%s-%s" % (pid, hashlib.sha1(os.path.abspath(repo).encode()).hexdigest()[:8]))
    r = engine_v.run_program(repo, prog["layout"], bdir, rlimit=prog.get("rlimit", 60), wall=prog.get("wall", 300))
    units = set(prog.get("units", []))
    lemmas = set(prog.get("lemmas", []))
    o = dict(engine="V", name=prog["layout"], bounded=False, failures=[], undecided=[], detail=r)
    if r["status"] == "undecided" and not r.get("failures"):
        o["undecided"].append(r["reason"] or "unknown")
        o["obligations"] = o["discharged"] = 0
        return o
    if r.get("reason"):
        o["undecided"].append(r["reason"])
    # canaries: every unit with a canary must show a failure in its canary
    canary_failed = set()
    foreign = []
    for f in r["failures"]:
        u = f.get("unit") or ""
        if u.startswith("canary:"):
            canary_failed.add(u[7:])
            continue
        f["engine"] = "V"
        if u in set(prog.get("soft_units", [])):
            # a sub-claim that rests on this unit is no longer established; the property's main claim does not depend on it
            o["undecided"].append("sub-claim not re-established after a change of %s (%s): %s" % (u, prog.get("soft_reason", "see DESIGN"), f["obligation"]))
        elif u in units and any(fi.get("unit") == u and fi.get("r11") for fi in r.get("funcs", [])):
            # the contract text was rewritten along inferred renames (R11): a failure may be a wrong inference, never report it
            o["undecided"].append("%s: locals were renamed and the contract was rewritten along the inferred renames (R11); the failed obligation %s is not reported as a finding" % (u, f["obligation"]))
        elif u in units and any(fi.get("unit") == u and fi.get("closures") for fi in r.get("funcs", [])):
            o["undecided"].append("%s now contains a closure whose effect Verus does not infer (argument of map / and_then / fold ...): the failed obligation %s is a tool limit, not a finding" % (u, f["obligation"]))
        elif u in units and not (prog.get("exclude") and re.search(prog["exclude"], f["obligation"])):
            if f["obligation"] not in [g["obligation"] for g in o["failures"]]:
                o["failures"].append(f)
        elif u in lemmas or u in ("", "spec", "lemma-import"):
            # lemmas / spec vocabulary do not depend on /repo: a failure there is proof instability
            o["undecided"].append("lemma or spec obligation failed (%s) — not attributable to /repo" % f["obligation"])
        else:
            foreign.append(f["obligation"])
    want_canaries = {fi["unit"] for fi in r["funcs"] if fi.get("canary")}
    missing = want_canaries - canary_failed
    if missing:
        o["undecided"].append("vacuity: canary with `ensures false` verified for %s (contradictory precondition?)" % sorted(missing))
    # obligations = functions Verus checked that belong to this property (units + everything they call in the program)
    fb = [f for f in r.get("function_breakdown", []) if "vcanary_" not in f["function"]]
    o["obligations"] = len(fb)
    o["discharged"] = len([f for f in fb if f["ok"]])
    # functions whose obligations were discharged by the second run (non-linear arithmetic switched on)
    o["discharged"] = min(o["obligations"], o["discharged"] + len({d.split("[")[0].rsplit(":", 1)[0] for d in r.get("nl_retry", {}).get("dropped", [])}))
    o["foreign_failures"] = foreign
    o["canaries"] = sorted(want_canaries)
    return o


def write_evidence(pid, prop, tier, seed, outcomes, violations, known_hits, undecided, wall):
    level = prop.get("level", "other")
    proved = [o for o in outcomes if not o.get("bounded")]
    bounded = [o for o in outcomes if o.get("bounded")]
    obligations = sum(o.get("obligations", 0) for o in proved)
    discharged = sum(o.get("discharged", 0) for o in proved)
    funcs, assumed, cmds, samples, rewrites = [], [], [], [], []
    solver_ms = 0.0
    per_fn = []
    for o in outcomes:
        d = o.get("detail") or {}
        if o["engine"] == "V":
            for fi in d.get("funcs", []):
                funcs.append(dict(function=fi["unit"], file=fi.get("file"), lines=fi.get("lines"), text_sha256_16=fi.get("sha256"),
                                  in_property=(fi["unit"] in set(sum([p.get("units", []) for p in prop.get("v", [])], [])))))
            for a in d.get("assumed", []):
                assumed.append("%s %s (%s)" % (a["kind"], a["item"], a["origin"]))
            if d.get("cmd"):
                cmds.append(d["cmd"])
            rewrites.extend(d.get("rewrites", []))
            for f in d.get("function_breakdown", []):
                solver_ms += f["ms"]
                per_fn.append(f)
        else:
            cmds.extend(o.get("cmds", []))
            solver_ms += o.get("solver_ms", 0.0)
        samples.extend(o.get("samples", []))
    for o in outcomes:
        if o["engine"] == "V":
            d = o.get("detail") or {}
            want = set(sum([p.get("units", []) for p in prop.get("v", [])], []))
            for f in d.get("function_breakdown", []):
                short = f["function"].split("::")[-1]
                if short in want or any(short == w.split("::")[-1] for w in want):
                    samples.append(dict(obligation="V:" + f["function"], discharged=f["ok"], backend="verus/z3", smt_ms=round(f["ms"], 1)))
    assumed = sorted(set(assumed))
    trusted = list(prop.get("trusted_base", [])) + [
        "rustc + Verus 0.2026.09.13 + z3 (Verus' bundled)", "extractor rewrite rules R1-R10 (DESIGN.md A.1)",
        "prelude: assumed contracts on ndarray / num-traits / std (contracts/prelude/prelude.rs)"]
    cov = dict(
        obligations=obligations, discharged=discharged,
        checker_cmd="; ".join(cmds) if cmds else "n/a",
        trusted_base=trusted,
        explanation=prop.get("explanation", ""),
        functions_under_contract=funcs,
        solver_wall_ms=round(solver_ms, 1),
        per_function=[dict(function=f["function"], mode=f["mode"], smt_ms=round(f["ms"], 1), ok=f["ok"]) for f in per_fn if not f["function"].split("::")[-1].startswith(("add", "sub", "mul", "div", "neg", "clone"))][:80],
        extraction_rewrites=rewrites,
        bounded_checks=[dict(engine=o["engine"], name=o.get("name"), bound=o.get("bound"), cases=o.get("obligations", 0), passed=o.get("discharged", 0),
                             not_decided=o.get("not_decided", [])) for o in bounded],
        engines=[dict(engine=o["engine"], name=o.get("name"), obligations=o.get("obligations", 0), discharged=o.get("discharged", 0), bounded=bool(o.get("bounded")),
                      undecided=o.get("undecided", []),
                      discharged_only_with_nonlinear_arithmetic=(o.get("detail") or {}).get("nl_retry", {}).get("dropped", []) if isinstance(o.get("detail"), dict) else []) for o in outcomes],
        samples=samples[:40] or [dict(note="no obligations ran")],
        not_decided=prop.get("not_decided", []),
        known_findings=[dict(what=k["what"], obligation=f["obligation"]) for k, f in known_hits],
        violations=[f["obligation"] for f in violations],
        undecided=undecided,
        exhaustive=False,
    )
    # generic keys as well (accepted fallback of the schema)
    cov["evaluations"] = max(1, obligations + sum(o.get("obligations", 0) for o in bounded))
    cov["distinct_nontrivial"] = max(2, len({json.dumps(s, sort_keys=True, default=str) for s in samples}))
    cov["rule"] = "one evaluation = one proof obligation (function-level VC bundle, lemma query or bounded harness/configuration); distinct = distinct obligation names"
    ev = dict(property_id=pid, tier=tier, seed=seed, level=level, coverage=cov,
              assumptions=sorted(set(list(prop.get("assumptions", [])) + assumed)),
              wall_s=round(wall, 2), violations=len(violations))
    # evidence describes /repo itself; runs against scratch copies (VERIF_REPO) must never overwrite it
    edir = os.path.join(VERIF, "evidence") if os.path.abspath(EVIDENCE_REPO[0]) == "/repo" else os.path.join(BUILD, "evidence-scratch")
    os.makedirs(edir, exist_ok=True)
    json.dump(ev, open(os.path.join(edir, pid + ".json"), "w"), indent=1, default=str)
