"""Engine R: rustc as the checker for type-level claims (type identity of the relabelled views,
Send/Sync auto-trait derivation) plus a mechanical source scan.  The generated crate depends on the
/repo working tree by path and only has to COMPILE."""
import hashlib
import os
import re
import shutil
import subprocess
import time

HERE = os.path.dirname(os.path.abspath(__file__))
VERIF = os.path.dirname(HERE)

TYPEALG = '''
#![allow(dead_code, unused_imports)]
use ndarray::*;
// identity coercion: compiles iff source and destination are the SAME type
macro_rules! same1d { ($name:ident, $D:ty) => {
    fn $name<E>(v: ArrayViewMut<'_, E, <Ix1 as DimAdd<<$D as Dimension>::Smaller>>::Output>) -> ArrayViewMut<'_, E, $D> { v }
}; }
macro_rules! same2d { ($name:ident, $D:ty) => {
    fn $name<E>(v: ArrayViewMut<'_, E, <Ix1 as DimAdd<<<$D as Dimension>::Smaller as Dimension>::Smaller>>::Output>) -> ArrayViewMut<'_, E, <$D as Dimension>::Smaller> { v }
}; }
same1d!(a1, Ix1); same1d!(a2, Ix2); same1d!(a3, Ix3); same1d!(a4, Ix4); same1d!(a5, Ix5); same1d!(a6, Ix6); same1d!(ad, IxDyn);
same2d!(b2, Ix2); same2d!(b3, Ix3); same2d!(b4, Ix4); same2d!(b5, Ix5); same2d!(b6, Ix6); same2d!(bd, IxDyn);
fn q<'a, S: RawData>(v: &'a ArrayBase<S, Ix1>) -> &'a ArrayBase<S, Ix1> { v }
fn main() {}
'''
SENDSYNC = '''
#![allow(dead_code, unused_imports)]
use ndarray::*;
use ndarray_interp::interp1d::{*, cubic_spline::*};
use ndarray_interp::interp2d::*;
fn ss<X: Send + Sync>() {}
fn main() {
    ss::<Interp1D<OwnedRepr<f64>, OwnedRepr<f64>, Ix1, Linear>>();
    ss::<Interp1D<OwnedRepr<f64>, OwnedRepr<f64>, Ix3, Linear>>();
    ss::<Interp1D<OwnedRepr<f32>, OwnedRepr<f32>, IxDyn, Linear>>();
    ss::<Interp1D<ViewRepr<&'static f64>, ViewRepr<&'static f64>, Ix2, Linear>>();
    ss::<Interp1D<OwnedArcRepr<f64>, OwnedArcRepr<f64>, Ix2, Linear>>();
    ss::<Interp1D<OwnedRepr<f64>, OwnedRepr<f64>, Ix1, CubicSplineStrategy<OwnedRepr<f64>, Ix1>>>();
    ss::<Interp1D<OwnedRepr<f64>, OwnedRepr<f64>, Ix2, CubicSplineStrategy<OwnedRepr<f64>, Ix2>>>();
    ss::<Interp1D<OwnedArcRepr<f64>, OwnedRepr<f64>, IxDyn, CubicSplineStrategy<OwnedArcRepr<f64>, IxDyn>>>();
    ss::<Interp1D<ViewRepr<&'static f64>, ViewRepr<&'static f64>, Ix2, CubicSplineStrategy<ViewRepr<&'static f64>, Ix2>>>();
    ss::<Interp2D<OwnedRepr<f64>, OwnedRepr<f64>, OwnedRepr<f64>, Ix2, Bilinear>>();
    ss::<Interp2D<OwnedRepr<f32>, OwnedRepr<f32>, OwnedRepr<f32>, IxDyn, Bilinear>>();
    ss::<Interp2D<ViewRepr<&'static f64>, ViewRepr<&'static f64>, ViewRepr<&'static f64>, Ix3, Bilinear>>();
    ss::<Interp2D<OwnedArcRepr<f64>, OwnedArcRepr<f64>, OwnedArcRepr<f64>, Ix4, Bilinear>>();
    ss::<Interp1DBuilder<OwnedRepr<f64>, OwnedRepr<f64>, Ix2, CubicSpline<f64, Ix2>>>();
}
'''
SCAN = r"\b(static\s+mut|thread_local!|UnsafeCell|RefCell|\bCell<|Atomic[A-Z][A-Za-z0-9]*|Mutex|RwLock|OnceCell|OnceLock|lazy_static)\b"


def compile_crate(repo, build, name, src):
    tag = hashlib.sha1(os.path.abspath(repo).encode()).hexdigest()[:8]
    d = os.path.join(build, "rcheck-%s-%s" % (name, tag))
    os.makedirs(os.path.join(d, "src"), exist_ok=True)
    open(os.path.join(d, "Cargo.toml"), "w").write('[package]\nname = "rcheck_%s"\nversion = "0.1.0"\nedition = "2021"\n\n[dependencies]\nndarray-interp = { path = "%s" }\nndarray = "0.16"\n\n[workspace]\n' % (name, os.path.abspath(repo)))
    open(os.path.join(d, "src", "main.rs"), "w").write(src)
    lock = os.path.join(repo, "Cargo.lock")
    if os.path.exists(lock):
        shutil.copy(lock, os.path.join(d, "Cargo.lock"))
    env = dict(os.environ, CARGO_NET_OFFLINE="true", CARGO_TARGET_DIR=os.path.join(build, "rcheck-target"), RUSTFLAGS="-Awarnings")
    p = subprocess.run(["cargo", "check", "--offline"], cwd=d, env=env, capture_output=True, text=True)
    return p.returncode, p.stderr


def run(repo, cfg, pid, tier, seed, build):
    t0 = time.time()
    o = dict(engine="R", name=cfg["kind"], bounded=False, failures=[], undecided=[], obligations=0, discharged=0, samples=[], cmds=["cargo check --offline (generated crate, path dependency on the working tree)"])
    if cfg["kind"] == "typealgebra":
        rc, err = compile_crate(repo, build, "typealg", TYPEALG)
        o["obligations"] += 13
        if rc == 0:
            o["discharged"] += 13
            o["samples"].append(dict(obligation="R:C19:type-identity[ArrayViewMut<E, <Ix1 as DimAdd<D::Smaller>>::Output> == ArrayViewMut<E, D>, D in Ix1..Ix6, IxDyn; 2-D analogue]", discharged=True, backend="rustc type checker"))
        elif "mismatched types" in err or "E0308" in err:
            o["failures"].append(dict(engine="R", obligation="R:C19:type-identity", message="the relabelled view types are not identical", output=err[-3000:], witness=dict(compiler_error=err[-800:])))
        else:
            o["undecided"].append("type-algebra crate does not compile for another reason: %s" % err[-500:])
        # the guard: the fast path must be taken only under TypeId equality with Ix1
        for rel in ("src/interp1d/mod.rs", "src/interp2d/mod.rs"):
            txt = open(os.path.join(repo, rel)).read()
            o["obligations"] += 1
            casts = [m.start() for m in re.finditer(r"cast_unchecked::<", txt)]
            guards = [m.start() for m in re.finditer(r"if\s+TypeId::of::<(?:Dq>\(\)\s*==\s*TypeId::of::<Ix1|Ix1>\(\)\s*==\s*TypeId::of::<Dq)>\(\)\s*\{", txt)]
            if casts and not guards:
                # the scan recognises one spelling of the guard (either operand order); anything else is not decided here
                # (the run-time hook in cast_unchecked, engine S, still checks every cast that is executed)
                o["undecided"].append("anchor lost: no `if TypeId::of::<Dq>() == TypeId::of::<Ix1>() {` guard recognised in %s" % rel)
                continue
            ok = bool(casts) and len(guards) == 1
            if ok:
                # every cast lies inside the guarded block
                g = guards[0]
                depth, k = 0, txt.index("{", g)
                end = None
                for i in range(k, len(txt)):
                    if txt[i] == "{":
                        depth += 1
                    elif txt[i] == "}":
                        depth -= 1
                        if depth == 0:
                            end = i
                            break
                ok = end is not None and all(g < c < end for c in casts)
            if ok:
                o["discharged"] += 1
                o["samples"].append(dict(obligation="R:C19:cast-guarded-by-TypeId[%s]" % rel, discharged=True, backend="source scan"))
            elif not casts:
                o["undecided"].append("anchor lost: no cast_unchecked call in %s" % rel)
            else:
                o["failures"].append(dict(engine="R", obligation="R:C19:cast-guarded-by-TypeId[%s]" % rel, message="a cast_unchecked call is not inside the `TypeId::of::<Dq>() == TypeId::of::<Ix1>()` block",
                                          witness=dict(file=rel), output="casts at offsets %s, guards at %s" % (casts, guards)))
    elif cfg["kind"] == "sendsync":
        rc, err = compile_crate(repo, build, "sendsync", SENDSYNC)
        o["obligations"] += 14
        if rc == 0:
            o["discharged"] += 14
            o["samples"].append(dict(obligation="R:C17:Send+Sync[Interp1D/Interp2D over owned, view, shared storage; Linear, CubicSplineStrategy, Bilinear]", discharged=True, backend="rustc auto-trait derivation"))
        elif "cannot be sent between threads safely" in err or "cannot be shared between threads safely" in err or "E0277" in err:
            o["failures"].append(dict(engine="R", obligation="R:C17:Send+Sync", message="an interpolator type is not Send + Sync", output=err[-3000:], witness=dict(compiler_error=err[-800:])))
        else:
            o["undecided"].append("send/sync crate does not compile for another reason: %s" % err[-500:])
        # interior mutability / global state scan (outside the cfg-guarded hook module and tests)
        hits = []
        for root, _, files in os.walk(os.path.join(repo, "src")):
            for f in files:
                if not f.endswith(".rs"):
                    continue
                txt = open(os.path.join(root, f)).read()
                txt = re.sub(r"#\[cfg\(ndarray_interp_verif\)\]\s*pub mod verif \{.*?\n\}\n", "", txt, flags=re.S)
                txt = re.sub(r"#\[cfg\(test\)\]\s*mod \w+ \{.*", "", txt, flags=re.S)
                for ln_no, ln in enumerate(txt.split("\n"), 1):
                    if ln.strip().startswith("//"):
                        continue
                    if re.search(SCAN, ln):
                        hits.append("%s:%d: %s" % (os.path.relpath(os.path.join(root, f), repo), ln_no, ln.strip()[:120]))
        o["obligations"] += 1
        if not hits:
            o["discharged"] += 1
            o["samples"].append(dict(obligation="R:C17:no-interior-mutability-or-global-state[src/**]", discharged=True, backend="source scan"))
        else:
            o["failures"].append(dict(engine="R", obligation="R:C17:no-interior-mutability-or-global-state", message="shared mutable state reachable from the interpolator code", witness=dict(hits=hits[:10]), output="\n".join(hits)))
    o["wall"] = time.time() - t0
    return o
