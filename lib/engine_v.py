"""Engine V: Verus on functions extracted mechanically from the current /repo working tree."""
import json
import os
import re
import subprocess
import sys
import time
import signal

HERE = os.path.dirname(os.path.abspath(__file__))
VERIF = os.path.dirname(HERE)
sys.path.insert(0, os.path.join(VERIF, "extract"))
from extract import Undecided  # noqa: E402
import assemble  # noqa: E402

# messages Verus prints for a failed proof obligation (anything else is a tool / compile problem)
VERIFY_FAIL = [
    "postcondition not satisfied",
    "precondition not satisfied",
    "invariant not satisfied at end of loop body",
    "invariant not satisfied before loop",
    "assertion failed",
    "possible arithmetic underflow/overflow",
    "possible division by zero",
    "decreases not satisfied",
    "possible bit shift underflow/overflow",
    "loop invariant not satisfied",
    "unwrap",  # defensive
    "recommendation not met",
    "index out of bounds",
    "cannot prove termination",
    "could not prove termination",
    "requires not satisfied",
    "possible attempt to",
    "failed precondition",
]
RLIMIT = ["Resource limit (rlimit) exceeded", "rlimit"]


def kill_tree(p):
    try:
        os.killpg(os.getpgid(p.pid), signal.SIGKILL)
    except Exception:
        pass


def run_verus(path, rlimit=60, wall=240, threads=8, extra=()):
    cmd = ["verus", path, "--rlimit", str(rlimit), "--output-json", "--time-expanded", "--num-threads", str(threads), "--multiple-errors", "4"] + list(extra)
    t0 = time.time()
    p = subprocess.Popen(cmd, stdout=subprocess.PIPE, stderr=subprocess.PIPE, text=True, start_new_session=True,
                         cwd=os.path.dirname(path))
    try:
        out, err = p.communicate(timeout=wall)
        timed_out = False
    except subprocess.TimeoutExpired:
        kill_tree(p)
        out, err = p.communicate()
        timed_out = True
    return dict(cmd=" ".join(cmd), out=out, err=err, rc=p.returncode, wall=time.time() - t0, timed_out=timed_out)


def parse_diagnostics(err):
    """split rustc-style diagnostics into blocks: (level, message, primary_line, all_lines, text)"""
    blocks = []
    cur = None
    for ln in err.split("\n"):
        m = re.match(r"^(error|warning|note)(\[[A-Z0-9]+\])?: (.*)$", ln)
        if m and not ln.startswith(" "):
            cur = dict(level=m.group(1), msg=m.group(3), lines=[], primary=None, text=[ln])
            blocks.append(cur)
            continue
        if cur is None:
            continue
        cur["text"].append(ln)
        m = re.match(r"^\s*--> [^:]+:(\d+):(\d+)", ln)
        if m and cur["primary"] is None:
            cur["primary"] = int(m.group(1))
        m = re.match(r"^\s*(\d+)\s*\|", ln)
        if m:
            cur["lines"].append(int(m.group(1)))
    return blocks


def run_program(repo, layout_name, build_dir, rlimit=60, wall=300):
    """returns dict: status in {'ok','fail','undecided'}, failures=[...], funcs, stats, cmd, wall, reason"""
    layout = os.path.join(VERIF, "contracts", "programs", layout_name + ".layout")
    res = dict(layout=layout_name, status="undecided", failures=[], funcs=[], reason=None, rewrites=[])
    try:
        em, funcs, log = assemble.assemble(repo, layout)
    except Undecided as e:
        res["reason"] = "extraction: %s" % e
        return res
    except Exception as e:  # lexer trouble etc. is a tool problem, never a violation
        res["reason"] = "extraction crashed: %r" % e
        return res
    os.makedirs(build_dir, exist_ok=True)
    gen = os.path.join(build_dir, layout_name + ".rs")
    open(gen, "w").write(em.text())
    json.dump(em.map, open(gen + ".map.json", "w"))
    res["generated"] = gen
    res["funcs"] = funcs
    res["rewrites"] = log
    res["assumed"] = scan_assumptions(em)
    res["clauses"] = count_clauses(em)
    r = run_verus(gen, rlimit=rlimit, wall=wall)
    res["cmd"] = r["cmd"]
    res["wall"] = r["wall"]
    res["stderr"] = r["err"][-20000:]
    if r["timed_out"]:
        res["reason"] = "verus wall-clock limit (%ds) hit" % wall
        return res
    try:
        js = json.loads(r["out"])
    except Exception:
        res["reason"] = "verus produced no JSON (rc=%s): %s" % (r["rc"], r["err"][-2000:])
        return res
    vr = js.get("verification-results", {})
    res["verified"] = vr.get("verified", 0)
    res["errors"] = vr.get("errors", 0)
    fb = []
    try:
        for m in js["times-ms"]["smt"]["smt-run-module-times"]:
            fb.extend(m.get("function-breakdown", []))
    except Exception:
        pass
    res["function_breakdown"] = [dict(function=f["function"], mode=f.get("mode:"), ms=f.get("time-micros", 0) / 1000.0, ok=f.get("success")) for f in fb]
    try:
        res["smt_ms"] = js["times-ms"]["smt"]["smt-run"]
    except Exception:
        res["smt_ms"] = None
    blocks = [b for b in parse_diagnostics(r["err"]) if b["level"] == "error"]
    if vr.get("encountered-vir-error") or (vr.get("encountered-error") and not any(
            any(v in b["msg"] for v in VERIFY_FAIL) for b in blocks) and vr.get("errors", 0) == 0):
        res["reason"] = "verus rejected the generated program (not a proof failure): " + "; ".join(b["msg"] for b in blocks[:3])
        return res
    failures = []
    undecided = []
    for b in blocks:
        if b["msg"].startswith("aborting due to"):
            continue
        if any(x in b["msg"] for x in RLIMIT):
            undecided.append("rlimit: " + b["msg"])
            continue
        if not any(v in b["msg"] for v in VERIFY_FAIL):
            undecided.append("unclassified verus error: " + b["msg"])
            continue
        failures.append(name_failure(b, em))
    # second opinion: Verus keeps Z3's non-linear arithmetic switched off; an algebraically equivalent rewrite of a formula
    # (a*(b/c) for a*b/c, distributed factors) then fails an invariant although the obligation is TRUE. Before a failure of a
    # unit is reported, the same generated file is checked once more with `smt.arith.nl=true`; a unit that verifies there IS
    # verified (the obligations are the same, only the solver configuration differs). Canary failures are never retried away.
    real = [f for f in failures if not (f.get("unit") or "").startswith("canary:")]
    if real and not undecided and os.environ.get("VERIF_NO_NL_RETRY") != "1":
        r2 = run_verus(gen, rlimit=rlimit, wall=wall, extra=["--smt-option", "smt.arith.nl=true"])
        res["nl_retry"] = dict(cmd=r2["cmd"], wall=r2["wall"], timed_out=r2["timed_out"], dropped=[])
        ok2 = False
        try:
            js2 = json.loads(r2["out"])
            ok2 = not r2["timed_out"] and not js2.get("verification-results", {}).get("encountered-vir-error")
        except Exception:
            ok2 = False
        if ok2:
            blocks2 = [b for b in parse_diagnostics(r2["err"]) if b["level"] == "error" and not b["msg"].startswith("aborting due to")]
            hard2 = [b for b in blocks2 if any(x in b["msg"] for x in RLIMIT) or not any(v in b["msg"] for v in VERIFY_FAIL)]
            if not hard2:
                f2 = [name_failure(b, em) for b in blocks2]
                units2 = {f.get("unit") for f in f2}
                kept = []
                for f in failures:
                    u = f.get("unit") or ""
                    if u.startswith("canary:") or u in units2:
                        kept.append(f)
                    else:
                        res["nl_retry"]["dropped"].append(f["obligation"])
                failures = kept
                res["wall"] += r2["wall"]
    res["failures"] = failures
    if undecided:
        res["reason"] = "; ".join(undecided)
        res["status"] = "undecided" if not failures else "fail"
    elif failures:
        res["status"] = "fail"
    elif vr.get("success") or res.get("nl_retry", {}).get("dropped"):
        res["status"] = "ok"
    else:
        res["reason"] = "verus reported failure without a diagnostic"
    return res


def name_failure(b, em):
    def ent(l):
        return em.map[l - 1] if l and 0 < l <= len(em.map) else {}
    prim = ent(b["primary"])
    unit = prim.get("unit")
    clause, src = None, None
    for l in [b["primary"]] + b["lines"]:
        e = ent(l)
        if not unit and e.get("unit"):
            unit = e["unit"]
        k = e.get("kind", "")
        if clause is None and (k in ("ensures", "requires", "proof", "decreases") or k.startswith("loop") or k.startswith("zloop")):
            clause = e
        if src is None and k == "code" and e.get("line"):
            src = e
    kind = b["msg"]
    label = ""
    if clause is not None:
        label = clause.get("label") or clause.get("clause", "")
        label = "%s:%s" % (clause.get("kind"), label)
    where = "%s:%s" % (src["src"], src["line"]) if src else None
    name = "V:%s:%s[%s]" % (unit or prim.get("kind", "?"), kind, label)
    return dict(obligation=name, unit=unit, message=b["msg"], clause=(clause or {}).get("clause"), contract_file=(clause or {}).get("ufile"),
                contract_line=(clause or {}).get("uline"), repo_location=where, verus_output="\n".join(b["text"]))


def scan_assumptions(em):
    """mechanical scan of the generated file for everything that is assumed rather than proved"""
    found = []
    txt = em.lines
    for i, ln in enumerate(txt):
        for kw in ("external_body", "assume(", "admit(", "assume_specification", "external_fn_specification", "uninterp "):
            if kw in ln and not ln.strip().startswith("//"):
                # name of the item: next `fn` on this or following lines
                name = None
                for j in range(i, min(i + 4, len(txt))):
                    m = re.search(r"\bfn\s+([A-Za-z0-9_]+)", txt[j])
                    if m:
                        name = m.group(1)
                        break
                origin = em.map[i].get("kind")
                found.append(dict(kind=kw.strip("( "), item=name, origin=origin, line=i + 1))
    return found


def count_clauses(em):
    c = {}
    for e in em.map:
        k = e.get("kind", "")
        if k in ("ensures", "requires", "decreases") or k.startswith("loop") or k.startswith("zloop") or k == "proof":
            c[k] = c.get(k, 0) + 1
    return c
