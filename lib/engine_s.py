"""Engine S (bounded stand-in): runs the REAL generic crate on the term-recording scalar and decides
the property obligations exactly over the recorded DAGs.  Bounded in shape, complete in values."""
import hashlib
import json
import os
import shutil
import subprocess
import sys
import time
from concurrent.futures import ThreadPoolExecutor

HERE = os.path.dirname(os.path.abspath(__file__))
VERIF = os.path.dirname(HERE)

SINGLE = ["NotAKnot", "Natural", "Clamped", "FirstDeriv", "SecondDeriv"]


def build_runner(repo, build):
    """(re)build the runner against the given working tree; returns (binary, error)"""
    tag = hashlib.sha1(os.path.abspath(repo).encode()).hexdigest()[:8]
    d = os.path.join(build, "symexec-" + tag)
    os.makedirs(d, exist_ok=True)
    toml = open(os.path.join(VERIF, "symexec", "Cargo.toml.in")).read().replace("@REPO@", os.path.abspath(repo))
    open(os.path.join(d, "Cargo.toml"), "w").write(toml)
    if os.path.exists(os.path.join(d, "src")):
        shutil.rmtree(os.path.join(d, "src"))
    shutil.copytree(os.path.join(VERIF, "symexec", "src"), os.path.join(d, "src"))
    lock = os.path.join(repo, "Cargo.lock")
    if os.path.exists(lock):
        shutil.copy(lock, os.path.join(d, "Cargo.lock"))
    # one shared target directory (dependencies are compiled once); the build is serialised by a lock and the
    # finished binary is copied aside, so concurrent checks of different trees cannot pick up each other's binary
    import fcntl
    tdir = os.path.join(build, "symexec-target")
    os.makedirs(tdir, exist_ok=True)
    env = dict(os.environ, CARGO_NET_OFFLINE="true", CARGO_TARGET_DIR=tdir, RUSTFLAGS="--cfg ndarray_interp_verif -Awarnings")
    with open(os.path.join(build, "symexec.lock"), "w") as lk:
        fcntl.flock(lk, fcntl.LOCK_EX)
        p = subprocess.run(["cargo", "build", "--release", "--offline"], cwd=d, env=env, capture_output=True, text=True)
        if p.returncode != 0:
            return None, p.stderr[-3000:]
        out = os.path.join(d, "symexec-bin")
        shutil.copy(os.path.join(tdir, "release", "symexec"), out)
    return out, None


def spline_scenarios(tier, what):
    """enumerate the bounded configuration space; `what` selects a sub-family"""
    out = []
    ns = [3, 4, 5] if tier == "quick" else [3, 4, 5, 6, 7, 8, 9]
    if what in ("pairs", "all"):
        for n in ns:
            for li, l in enumerate(SINGLE):
                for ri, r in enumerate(SINGLE):
                    out.append("spline n=%d bc=Individual=Mixed:%s:%s extrap=1 seed=%d" % (n, l, r, (n + li + 2 * ri) % 7))
                    if tier == "thorough" and n <= 6:
                        out.append("spline n=%d lanes=2 bc=Individual=Mixed:%s:%s|Mixed:%s:%s extrap=1 seed=%d off=%s" % (n, l, r, r, l, (n + 3 * li + ri) % 9, "-17.75" if (li + ri) % 2 else "250.5"))
    if what in ("pairs", "all") and tier == "quick":
        for (l, r, sd) in (("NotAKnot", "NotAKnot", 1), ("NotAKnot", "SecondDeriv", 2), ("FirstDeriv", "NotAKnot", 3), ("SecondDeriv", "FirstDeriv", 4), ("Natural", "Clamped", 5)):
            out.append("spline n=9 bc=Individual=Mixed:%s:%s extrap=1 seed=%d" % (l, r, sd))
    if what in ("whole", "all"):
        for n in ns + ([8, 11] if tier == "quick" else [11, 14]):
            for bc in ("NotAKnot", "Natural", "Clamped", "Periodic"):
                out.append("spline n=%d bc=%s extrap=1 seed=%d" % (n, bc, n % 5))
                out.append("spline n=%d bc=%s extrap=0 seed=%d" % (n, bc, (n + 1) % 5))
    if what in ("lanes", "all"):
        indiv = "Individual=Natural|Mixed:NotAKnot:FirstDeriv|Mixed:SecondDeriv:Clamped|NotAKnot"
        for n in ([3, 4, 5, 9] if tier == "quick" else [3, 4, 5, 6, 9, 12]):
            out.append("spline n=%d lanes=2 bc=%s extrap=1 seed=1" % (n, indiv))
            if n >= 9:
                out.append("spline n=%d lanes=2x2x2 bc=%s extrap=1 seed=3" % (n, indiv))
                out.append("spline n=%d lanes=3x1x2 bc=NotAKnot extrap=0 seed=5 dyn=1" % n)
            out.append("spline n=%d lanes=2x2 bc=%s extrap=1 seed=2" % (n, indiv))
            out.append("spline n=%d lanes=1 bc=NotAKnot extrap=1 seed=3" % n)
            out.append("spline n=%d lanes=3x2 bc=%s extrap=1 seed=4 dyn=1" % (n, indiv))
            out.append("spline n=%d lanes=2 bc=Periodic extrap=1 seed=5" % n)
            out.append("spline n=%d lanes=3 bc=Individual=Mixed:FirstDeriv:SecondDeriv|Mixed:FirstDeriv:SecondDeriv|Mixed:NotAKnot:FirstDeriv extrap=1 seed=2" % n)
            out.append("spline n=%d lanes=2x2 bc=Individual=Mixed:SecondDeriv:FirstDeriv|Mixed:Clamped:NotAKnot|Mixed:FirstDeriv:FirstDeriv|Mixed:Natural:SecondDeriv extrap=0 seed=3" % n)
            out.append("spline n=%d lanes=2 bc=Individual=Clamped|Clamped extrap=1 seed=1" % n)
            out.append("spline n=%d lanes=2 bc=Individual=Natural|Natural extrap=0 seed=4" % n)
            out.append("spline n=%d lanes=2 bc=Natural extrap=1 seed=6 layout=f" % n)
            out.append("spline n=%d bc=NotAKnot extrap=1 seed=1 gapset=mean" % n)
            out.append("spline n=%d bc=Default extrap=1 seed=2" % n)
            out.append("spline n=%d lanes=2 bc=Individual=Mixed:FirstDeriv:SecondDeriv|Mixed:SecondDeriv:FirstDeriv extrap=1 seed=3 const=1" % n)
            out.append("spline n=%d lanes=2x3 bc=Individual=Natural|Natural|Natural|Mixed:NotAKnot:FirstDeriv|Mixed:NotAKnot:FirstDeriv|Mixed:NotAKnot:FirstDeriv extrap=1 seed=2" % n)
            out.append("spline n=%d lanes=2x3 bc=Individual=Natural|Mixed:NotAKnot:FirstDeriv|Clamped|Mixed:SecondDeriv:Natural|NotAKnot|Mixed:FirstDeriv:Clamped extrap=1 seed=4 blayout=f" % n)
            out.append("spline n=%d lanes=3x1 bc=Individual=Natural|Mixed:FirstDeriv:NotAKnot|Clamped extrap=1 seed=1" % n)
            out.append("spline n=%d lanes=2x1x3 bc=%s extrap=0 seed=5 dyn=1" % (n, indiv))
            if n >= 5:
                out.append("spline n=%d bc=NotAKnot extrap=1 gapset=endsmean" % n)
                out.append("spline n=%d lanes=2 bc=Natural extrap=0 gapset=endsmean off=2.5" % n)
                out.append("spline n=%d bc=NotAKnot extrap=1 seed=2 xscale=1e-12" % n)
            out.append("spline n=%d bc=Natural extrap=0 seed=2 gapset=uniform" % n)
            out.append("spline n=%d lanes=2 bc=Clamped extrap=1 seed=3 gapset=palindrome" % n)
            out.append("spline n=%d bc=Periodic extrap=1 seed=2 gapset=mean" % n)
            out.append("spline n=%d bc=NotAKnot extrap=1 seed=4 xlayout=rev" % n)
            out.append("spline n=%d lanes=2 bc=Natural extrap=1 seed=1 xscale=1e-9 off=3" % n)
    if what == "linear":
        for n in ([2, 3, 5, 9, 17] if tier == "quick" else [2, 3, 4, 5, 7, 9, 17, 33]):
            for lanes, dyn in (("", 0), ("2", 0), ("2x2", 0), ("3", 1)) if n <= 9 else (("", 0), ("2x1x2", 0)):
                for ex in (0, 1):
                    out.append("linear n=%d lanes=%s extrap=%d seed=%d dyn=%d" % (n, lanes, ex, (n + ex) % 6, dyn))
            out.append("linear n=%d lanes=2 extrap=1 seed=2 layout=f" % n)
            # knots a few ulps apart around tiny values, huge values, special spacings, reversed-stride axis
            out.append("linear n=%d lanes=2 extrap=0 seed=1 xscale=1e-18" % n)
            out.append("linear n=%d extrap=1 seed=3 xscale=1e-300" % n)
            out.append("linear n=%d extrap=1 seed=2 xscale=1e18 off=7" % n)
            out.append("linear n=%d lanes=2 extrap=1 seed=4 gapset=uniform" % n)
            out.append("linear n=%d extrap=1 seed=1 gapset=mean" % n)
            if n >= 5:
                out.append("linear n=%d lanes=2 extrap=1 gapset=endsmean" % n)
            out.append("linear n=%d lanes=2 extrap=1 seed=2 xlayout=rev" % n)
    if what == "bilinear":
        for nx, ny in ([(2, 2), (3, 2), (2, 4), (3, 5), (4, 3), (9, 3)] if tier == "quick" else [(2, 2), (3, 2), (2, 4), (3, 5), (4, 3), (5, 5), (6, 2), (9, 3), (3, 12)]):
            for lanes in (1, 2):
                for ex in (0, 1):
                    out.append("bilinear nx=%d ny=%d lanes=%d extrap=%d seed=%d" % (nx, ny, lanes, ex, (nx + ny) % 5))
    if what == "large":
        # shapes far beyond the exhaustive enumeration, decided at exact rational points: size-dependent fast paths,
        # blocked loops with remainders, lane-count thresholds (more than 64 lanes, lane counts that are no multiple of 8)
        out.append("spline n=40 bc=NotAKnot extrap=1 seed=3")
        out.append("spline n=36 bc=Individual=Mixed:FirstDeriv:SecondDeriv extrap=1 seed=5")
        out.append("spline n=24 bc=Periodic extrap=1 seed=2")
        out.append("spline n=21 lanes=2 bc=Periodic extrap=0 seed=4 gapset=mean")
        if tier == "thorough":
            out.append("spline n=40 bc=Periodic extrap=1 seed=3")
            out.append("spline n=70 bc=Periodic extrap=1 seed=1")
            out.append("spline n=70 lanes=2 bc=Natural extrap=0 seed=2")
            out.append("spline n=8 lanes=77 bc=Clamped extrap=1 seed=1")
            out.append("spline n=6 lanes=7x11 bc=NotAKnot extrap=1 seed=4")
            out.append("spline n=5 lanes=70 bc=Natural extrap=1 seed=2 layout=f")
            out.append("spline n=130 bc=NotAKnot extrap=1 seed=1")
            out.append("spline n=67 lanes=3 bc=Clamped extrap=1 seed=6")
            out.append("spline n=9 lanes=5x5x5 bc=NotAKnot extrap=1 seed=2")
    if what == "large-linear":
        out.append("linear n=70 lanes=2 extrap=1 seed=4")
        out.append("linear n=6 lanes=77 extrap=1 seed=1")
        out.append("linear n=33 lanes=7x11 extrap=0 seed=2")
    if what == "periodic":
        for n in ns + ([8] if tier == "thorough" else []):
            out.append("spline n=%d bc=Periodic extrap=1 seed=%d" % (n, n % 5))
            out.append("spline n=%d lanes=2 bc=Periodic extrap=1 seed=%d" % (n, (n + 2) % 5))
            # the same periodic splines on axes far from the origin (first knot beyond one period on either side)
            out.append("spline n=%d bc=Periodic extrap=1 seed=%d off=37.5" % (n, (n + 1) % 5))
            out.append("spline n=%d bc=Periodic extrap=1 seed=%d off=-41.25" % (n, n % 5))
            out.append("spline n=%d lanes=2 bc=Periodic extrap=1 seed=%d off=1003.5" % (n, (n + 3) % 5))
            # the other order of the builder calls, a reversed-stride axis view
            out.append("spline n=%d bc=Periodic extrap=1 seed=%d order=eb" % (n, (n + 1) % 5))
            out.append("spline n=%d bc=Periodic extrap=1 seed=%d off=-12.5 order=eb" % (n, n % 5))
            out.append("spline n=%d bc=Periodic extrap=1 seed=%d xlayout=rev off=9.25" % (n, (n + 2) % 5))
    return out


def entry_scenarios(tier, what):
    out = []
    if what == "entry1d":
        combos = [("3", "3", 0, 0), ("3", "", 0, 0), ("3x2", "3", 0, 0), ("3x2", "", 0, 0), ("3x2", "2x2", 0, 0), ("3", "2x2", 0, 0), ("3x2x2", "2", 0, 0),
                  ("3x2x2", "2", 0, 1), ("3x2", "2", 0, 1), ("3", "2", 0, 1), ("3x2", "2", 1, 0), ("3x2x2", "2x3", 1, 1), ("3x2", "2", 1, 1), ("3", "", 0, 1),
                  ("9x2", "5", 0, 0), ("3x2x3", "1x1", 0, 0), ("3x2x3", "1x1", 0, 1), ("3x4x8", "2", 0, 0), ("3x2", "6x6", 0, 0), ("3x2", "2x2x2", 0, 0), ("3x2x2x2", "2", 0, 0), ("3x2", "2x1x2", 0, 0), ("4x2x1x3", "2x2", 1, 1), ("3x2x1x2x1", "2", 0, 0),
                  ("3x2", "0", 0, 0), ("3x0", "2", 0, 0), ("3x2x3", "2", 0, 0), ("3x2x3", "2", 0, 1), ("4x1", "2", 0, 0), ("4x3x1", "2", 0, 0), ("4x3", "2", 1, 0)]
        if tier == "thorough":
            combos += [("3x2x2", "2x2", 0, 0), ("3x2", "2x1x2", 0, 0), ("3", "2x1x2", 0, 0), ("3x2x1x2", "2", 0, 0), ("3x2x1x2", "2x1x2x1", 0, 0), ("3x2", "2x2", 1, 0),
                       ("3x2x2", "", 0, 1), ("3x2", "2x2x2", 0, 1), ("4x3", "0x2", 0, 0), ("3x2", "2x0", 0, 1)]
        for d, q, dd, qd in combos:
            for st in ("linear", "spline", "record", "linear-extrap"):
                if st == "spline" and d.startswith("3") and False:
                    continue
                out.append("entry1d data=%s q=%s ddyn=%d qdyn=%d strat=%s" % (d, q, dd, qd, st))
    if what == "entry2d":
        combos = [("3x3", "2", 0, 0), ("3x3", "", 0, 0), ("3x2x2", "2", 0, 0), ("3x3", "2x2", 0, 0), ("3x2x2", "2x2", 0, 0), ("3x2x2", "2", 1, 0), ("3x2x2", "2", 1, 1),
                  ("3x2x2", "2x2", 0, 1), ("3x3", "2", 0, 1), ("3x3", "0", 0, 0), ("3x2x2", "0", 0, 0), ("3x2x2x3", "2", 0, 0), ("3x2x1", "2", 0, 0), ("3x3x0", "2x2", 0, 0), ("3x3x0", "", 0, 0), ("3x3x0", "2", 1, 1), ("3x3", "6x6", 0, 0)]
        if tier == "thorough":
            combos += [("3x2x2x2", "2", 0, 0), ("3x2x2x2", "2x2", 0, 0), ("3x2x2", "", 1, 1), ("3x3", "2x1", 0, 1)]
        for d, q, dd, qd in combos:
            for st in ("bilinear", "record"):
                out.append("entry2d data=%s q=%s ddyn=%d qdyn=%d strat=%s" % (d, q, dd, qd, st))
    if what == "shim":
        out.append("shim")
    if what.startswith("oracle:"):
        _, prop, unit = what.split(":", 2)
        out.append("oracle prop=%s unit=%s" % (prop, unit))
    if what == "flagpair":
        for n in ([2, 4, 6] if tier == "quick" else [2, 3, 4, 6, 9, 12]):
            for lanes in (1, 3):
                out.append("flagpair n=%d lanes=%d" % (n, lanes))
    if what == "scalar":
        out += ["scalar n=%d" % n for n in ([3, 5] if tier == "quick" else [2, 3, 4, 5, 8])]
    if what == "fastpath":
        out += ["fastpath elem=f64", "fastpath elem=f32", "fastpath elem=i32", "fastpath elem=i64"]
    if what == "builder":
        out += ["builder"]
    if what == "lanes":
        for n in ([3, 4, 5, 9] if tier == "quick" else [3, 4, 5, 6, 7, 9, 13]):
            for lanes in ("2", "2x2", "1", "3x2", "1x3", "2x2x2", "3x1", "2x3x1", "2x1x3"):
                for st in ("linear", "spline", "bilinear"):
                    out.append("lanes n=%d lanes=%s strat=%s" % (n, lanes, st))
                if lanes in ("2x3x1", "3x2"):
                    out.append("lanes n=%d lanes=%s strat=spline bcset=rows" % (n, lanes))
                    out.append("lanes n=%d lanes=%s strat=spline bcset=varied blayout=f" % (n, lanes))
                if lanes in ("2", "2x2", "3x2"):
                    out.append("lanes n=%d lanes=%s strat=spline bcset=mixed" % (n, lanes))
                    out.append("lanes n=%d lanes=%s strat=spline bcset=samekind" % (n, lanes))
        out += ["lanes n=3 lanes=0 strat=linear", "lanes n=4 lanes=2x0 strat=linear"]
    if what == "layouts":
        for n in ([5, 6, 17] if tier == "quick" else [4, 5, 6, 8, 17, 40]):
            for lanes in ("", "3", "2x3", "2x3x2"):
                for st in ("linear", "spline", "bilinear"):
                    out.append("layouts n=%d lanes=%s strat=%s" % (n, lanes, st))
    return out


def run(repo, cfg, pid, tier, seed, build):
    t0 = time.time()
    o = dict(engine="S", name="symexec", bounded=True, failures=[], undecided=[], obligations=0, discharged=0, samples=[], cmds=[], not_decided=[],
             bound=cfg.get("bound", "exhaustive shapes: n in {3,4,5,8,9,11} knots (quick) / up to 14 (thorough), every ordered pair of end conditions, trailing shapes (),(1),(2),(2,2),(3,2),(2,2,2),(3,1),(2,3,1),(2,1,3) incl. dynamic rank; family `large`: n = 40 / 36 (quick), up to 130 knots and 125 lanes (thorough), decided at exact rational points; all real values"))
    binary, err = build_runner(repo, build)
    if binary is None:
        o["undecided"].append("runner does not build against the working tree: %s" % err[-600:])
        return o
    lines = []
    for what in cfg.get("scenarios", ["all"]):
        lines.extend(spline_scenarios(tier, what))
    lines.extend(cfg.get("extra_lines", {}).get(tier, []) if isinstance(cfg.get("extra_lines"), dict) else cfg.get("extra_lines", []))
    for what in cfg.get("entry", []):
        lines.extend(entry_scenarios(tier, what))
    lines = list(dict.fromkeys(lines))
    p = subprocess.run([binary], input="\n".join(lines) + "\n", capture_output=True, text=True)
    recs = [l for l in p.stdout.split("\n") if l.strip()]
    if len(recs) != len(lines):
        o["undecided"].append("runner produced %d records for %d scenarios (%s)" % (len(recs), len(lines), p.stderr[-300:]))
    # split into chunks for parallel discharge
    workdir = os.path.join(build, "s-%s-%s-%s" % (pid, tier, hashlib.sha1(os.path.abspath(repo).encode()).hexdigest()[:8]))
    os.makedirs(workdir, exist_ok=True)
    prefixes = tuple(cfg.get("count", ["S:%s:" % pid]))
    dag_recs = []
    for r in recs:
        if '"checks":[' in r[:400] or r.startswith('{"scenario"') and '"nodes"' not in r[:600]:
            try:
                d = json.loads(r)
            except Exception:
                o["undecided"].append("unparsable runner record")
                continue
            if d.get("result") == "harness-panic":
                o["undecided"].append("scenario harness panicked outside the code under test: %s" % d["scenario"])
                continue
            if d.get("result") != "ok":
                o["obligations"] += 1
                o["failures"].append(dict(engine="S", obligation="S:%s:run[%s]" % (pid, d["scenario"]), message="the real code panicked in scenario %s" % d["scenario"],
                                          witness=dict(scenario=d["scenario"]), output=r[:2000], scenario=d["scenario"]))
            for c in d.get("checks", []):
                nm = "S:" + c["name"]
                if not nm.startswith(prefixes):
                    continue
                o["obligations"] += 1
                if c["ok"]:
                    o["discharged"] += 1
                    if len(o["samples"]) < 8:
                        o["samples"].append(dict(obligation=nm, discharged=True, backend="node identity on the real code's recorded computation", bounded=True))
                else:
                    o["failures"].append(dict(engine="S", obligation=nm, message="relational check failed on the real code: %s" % c["detail"],
                                              witness=dict(scenario=d["scenario"], detail=c["detail"], replay="echo '%s' | <runner>" % d["scenario"]), output=json.dumps(c), scenario=d["scenario"]))
        else:
            dag_recs.append(r)
    # balance the chunks by record size (largest first, always into the lightest chunk)
    chunks = [[] for _ in range(12)]
    load = [0] * 12
    for r in sorted(dag_recs, key=len, reverse=True):
        ci = load.index(min(load))
        chunks[ci].append(r)
        load[ci] += len(r) * len(r) // 1000 + 1
    fams = ",".join(cfg.get("families", ["shape"]))
    sym_rule = cfg.get("sym", {}).get(tier, "sym<=0") if isinstance(cfg.get("sym"), dict) else cfg.get("sym", "sym<=0")

    def work(ci):
        if not chunks[ci]:
            return []
        path = os.path.join(workdir, "chunk%d.jsonl" % ci)
        open(path, "w").write("\n".join(chunks[ci]) + "\n")
        q = subprocess.run(["python3-vt", os.path.join(VERIF, "symexec", "discharge.py"), path, fams, sym_rule, str(seed), "6" if tier == "thorough" else "3"], capture_output=True, text=True)
        if q.returncode != 0:
            return [dict(scenario="chunk%d" % ci, error=q.stderr[-1500:], results=[])]
        return json.loads(q.stdout)

    with ThreadPoolExecutor(max_workers=12) as ex:
        outs = list(ex.map(work, range(12)))
    for chunk in outs:
        for sc in chunk:
            if sc.get("error"):
                o["undecided"].append("discharge crashed: " + sc["error"][-400:])
                continue
            for r in sc["results"]:
                if not r["name"].startswith(prefixes) and not r["name"].startswith("S:run["):
                    continue
                o["obligations"] += 1
                full = "%s @ %s" % (r["name"], sc["scenario"])
                if r["ok"]:
                    o["discharged"] += 1
                    if len(o["samples"]) < 6:
                        o["samples"].append(dict(obligation=full, discharged=True, backend=r["mode"], bounded=True))
                elif r["ok"] is None:
                    o["undecided"].append("%s: %s" % (full, r["detail"]))
                else:
                    o["failures"].append(dict(engine="S", obligation=full, message="identity over Q(inputs) is false on the real code's recorded computation",
                                              witness=r["detail"] if isinstance(r["detail"], dict) else None, output=json.dumps(r)[:3000],
                                              repo_location="src/interp1d/strategies/cubic_spline.rs", scenario=sc["scenario"]))
    o["cmds"] = ["%s < scenarios | python3-vt symexec/discharge.py <records> %s %s %d" % (binary, fams, sym_rule, seed)]
    o["scenarios"] = len(lines)
    o["wall"] = time.time() - t0
    return o
