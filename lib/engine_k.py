"""Engine K (bounded stand-in): Kani harnesses in a separate crate with a path dependency on the working tree.
Every bound is in the harness; unwinding assertions stay on, so a passing harness is complete for its bound."""
import hashlib
import os
import re
import shutil
import signal
import subprocess
import time

HERE = os.path.dirname(os.path.abspath(__file__))
VERIF = os.path.dirname(HERE)


def _kill(p):
    try:
        os.killpg(os.getpgid(p.pid), signal.SIGKILL)
    except Exception:
        pass


def run_harness(d, target, name, wall, extra=()):
    # the hook is left OFF here: its type_name string comparison needs a memcmp unwinding bound of ~150
    env = dict(os.environ, CARGO_NET_OFFLINE="true", CARGO_TARGET_DIR=target)
    env.pop("RUSTFLAGS", None)
    cmd = ["cargo", "kani", "--harness", name] + list(extra)
    t0 = time.time()
    p = subprocess.Popen(cmd, cwd=d, env=env, stdout=subprocess.PIPE, stderr=subprocess.STDOUT, text=True, start_new_session=True)
    try:
        out, _ = p.communicate(timeout=wall)
        to = False
    except subprocess.TimeoutExpired:
        _kill(p)
        subprocess.run(["pkill", "-9", "-f", "cbmc .*%s" % name], capture_output=True)
        out, _ = p.communicate()
        to = True
    return out, to, time.time() - t0, " ".join(cmd)


def run(repo, cfg, pid, tier, seed, build):
    o = dict(engine="K", name="kani", bounded=True, failures=[], undecided=[], obligations=0, discharged=0, samples=[], cmds=[], not_decided=[],
             bound=cfg.get("bound", "see harness names"))
    hs = cfg.get(tier, cfg.get("quick", [])) if tier == "quick" else list(cfg.get("quick", [])) + list(cfg.get("thorough", []))
    if not hs:
        return o
    tag = hashlib.sha1(os.path.abspath(repo).encode()).hexdigest()[:8]
    d = os.path.join(build, "kani-" + tag)
    os.makedirs(d, exist_ok=True)
    open(os.path.join(d, "Cargo.toml"), "w").write(open(os.path.join(VERIF, "kani", "Cargo.toml.in")).read().replace("@REPO@", os.path.abspath(repo)))
    if os.path.exists(os.path.join(d, "src")):
        shutil.rmtree(os.path.join(d, "src"))
    shutil.copytree(os.path.join(VERIF, "kani", "src"), os.path.join(d, "src"))
    if os.path.exists(os.path.join(repo, "Cargo.lock")):
        shutil.copy(os.path.join(repo, "Cargo.lock"), os.path.join(d, "Cargo.lock"))
    target = os.path.join(build, "kani-target")
    wall = cfg.get("wall", 600 if tier == "quick" else 1800)
    for h in hs:
        out, to, dt, cmd = run_harness(d, target, h, wall)
        o["cmds"].append(cmd)
        o["obligations"] += 1
        if to:
            o["undecided"].append("harness %s hit the wall-clock limit of %ds" % (h, wall))
            o["not_decided"].append(h)
            continue
        if "VERIFICATION:- SUCCESSFUL" in out:
            cov = re.search(r"(\d+) of (\d+) cover properties satisfied", out)
            if cov and cov.group(1) != cov.group(2):
                o["undecided"].append("harness %s: a reachability cover is not satisfied (vacuous?)" % h)
                continue
            o["discharged"] += 1
            m = re.search(r"Verification Time: ([0-9.]+)s", out)
            o["samples"].append(dict(obligation="K:" + h, discharged=True, backend="kani/cbmc", seconds=float(m.group(1)) if m else round(dt, 1), bounded=True))
        elif "VERIFICATION:- FAILED" in out:
            failed = re.findall(r"Check \d+: ([^\n]+)\n\s*- Status: FAILURE\n\s*- Description: \"([^\"]*)\"(?:\n\s*- Location: ([^\n]+))?", out)
            descs = [x[1] for x in failed][:6]
            if descs and all("unwinding assertion" in x for x in descs):
                o["undecided"].append("harness %s: unwinding bound too small (%s) — bound, not behaviour" % (h, failed[0][2] if failed[0][2] else ""))
                o["not_decided"].append(h)
                continue
            # concrete values for the replay file
            pb, _, _, _ = run_harness(d, target, h, wall, extra=("-Z", "concrete-playback", "--concrete-playback=print"))
            vals = re.findall(r"// ([^\n]+)\n\s*vec!\[([^\]]*)\]", pb)[:40]
            o["failures"].append(dict(engine="K", obligation="K:%s:%s" % (h, (descs[0] if descs else "failed")), message="; ".join(descs), output=out[-6000:],
                                      witness=dict(how="kani --concrete-playback=print", values=vals) if vals else None))
        else:
            o["undecided"].append("harness %s: kani did not finish (%s)" % (h, out[-300:].replace("\n", " ")))
    return o
