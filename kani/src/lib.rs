//! Kani harnesses on the REAL crate (path dependency on the working tree). Bounded stand-ins:
//! every bound is stated in the harness name and in the evidence.
#![allow(unused_imports)]
use ndarray::{Array1, ArrayView1};
use ndarray_interp::vector_extensions::{Monotonic, VectorExtensions};

#[cfg(kani)]
mod harness {
    use super::*;

    #[derive(PartialEq, Eq, Clone, Copy)]
    enum Cls { RisingStrict, Rising, FallingStrict, Falling, Not }

    fn classify(v: &[f64]) -> Cls {
        // C12, from the property statement (NaN-free input)
        if v.len() < 2 { return Cls::Not; }
        let mut all_lt = true; let mut all_gt = true; let mut all_le = true; let mut all_ge = true;
        let mut some_eq = false; let mut some_lt = false; let mut some_gt = false;
        let mut i = 0;
        while i + 1 < v.len() {
            let (a, b) = (v[i], v[i + 1]);
            if !(a < b) { all_lt = false; }
            if !(a > b) { all_gt = false; }
            if !(a <= b) { all_le = false; }
            if !(a >= b) { all_ge = false; }
            if a == b { some_eq = true; }
            if a < b { some_lt = true; }
            if a > b { some_gt = true; }
            i += 1;
        }
        if all_lt { Cls::RisingStrict } else if all_gt { Cls::FallingStrict }
        else if all_le && some_eq && some_lt { Cls::Rising }
        else if all_ge && some_eq && some_gt { Cls::Falling }
        else { Cls::Not }
    }
    fn of(m: Monotonic) -> Cls {
        match m {
            Monotonic::Rising { strict: true } => Cls::RisingStrict,
            Monotonic::Rising { strict: false } => Cls::Rising,
            Monotonic::Falling { strict: true } => Cls::FallingStrict,
            Monotonic::Falling { strict: false } => Cls::Falling,
            Monotonic::NotMonotonic => Cls::Not,
        }
    }
    fn check(v: &[f64]) {
        let got = of(ArrayView1::from(v).monotonic_prop());
        let mut has_nan = false;
        let mut i = 0;
        while i < v.len() { if v[i].is_nan() { has_nan = true; } i += 1; }
        if has_nan {
            assert!(got != Cls::RisingStrict && got != Cls::Rising, "VERIF C12 nan-never-rising");
        } else {
            assert!(got == classify(v), "VERIF C12 classification");
        }
        kani::cover!(true, "VERIF C12 reached");
    }

    /// every f64 bit pattern (NaN, +-inf, +-0, subnormals included) in every position, lengths 0..=4
    #[kani::proof]
    #[kani::unwind(7)]
    fn c12_monotonic_prop_len_le_4() {
        let v: [f64; 4] = kani::any();
        let n: usize = kani::any();
        kani::assume(n <= 4);
        check(&v[..n]);
    }

    /// strided / reversed view of a larger array, length 3
    #[kani::proof]
    #[kani::unwind(8)]
    fn c12_monotonic_prop_reversed_strided_view() {
        let v: [f64; 6] = kani::any();
        let a = Array1::from(v.to_vec());
        let view = a.slice(ndarray::s![..;-2]);
        let logical = [v[5], v[3], v[1]];
        let got = of(view.monotonic_prop());
        let has_nan = logical[0].is_nan() || logical[1].is_nan() || logical[2].is_nan();
        if has_nan { assert!(got != Cls::RisingStrict && got != Cls::Rising, "VERIF C12 nan-never-rising view"); }
        else { assert!(got == classify(&logical), "VERIF C12 classification view"); }
    }

    /// C19: the Ix1 fast path (two unchecked relabelling casts) under CBMC's pointer checks, against the single-point
    /// entry point; data 2x1 i64, default index axis, 1 symbolic in-range query
    #[kani::proof]
    #[kani::unwind(18)]
    fn c19_fast_path_memory_safe_and_equal_to_single_call() {
        use ndarray::Array2;
        use ndarray_interp::interp1d::Interp1DBuilder;
        let d0: i64 = kani::any(); let d1: i64 = kani::any();
        kani::assume(d0 > -1000 && d0 < 1000 && d1 > -1000 && d1 < 1000);
        let data = Array2::from_shape_vec((2, 1), vec![d0, d1]).unwrap();
        let q0: i64 = kani::any();
        kani::assume(0 <= q0 && q0 <= 1);
        let it = Interp1DBuilder::new(data).build().unwrap();
        let q = Array1::from(vec![q0]);
        let fast = it.interp_array(&q).unwrap();
        let r0 = it.interp(q0).unwrap();
        assert!(fast.ndim() == 2 && fast.shape()[0] == 1 && fast.shape()[1] == 1, "VERIF C19 shapes");
        assert!(fast[[0, 0]] == r0[0], "VERIF C19 fast-path-eq-single");
        kani::cover!(true, "VERIF C19 reached");
    }
}
